"""Symbolic values of pyvc.

Scalars are terms of one universal z3 datatype `Sc` (None | bool | int | str | enum member); everything with identity
(instances, lists, dicts) lives in a per-path heap and is referred to by `Ref`.  The *shape* of a value is always
concrete on a path; only scalars (and the class of declared symbolic-class objects) are symbolic.
"""
from __future__ import annotations

from typing import Any, Callable, Dict, List, Optional, Sequence, Tuple

import z3

# ----------------------------------------------------------------------------------------------- the scalar sort
_Sc = z3.Datatype("Sc")
_Sc.declare("none")
_Sc.declare("b", ("bv", z3.BoolSort()))
_Sc.declare("i", ("iv", z3.IntSort()))
_Sc.declare("s", ("sv", z3.StringSort()))
_Sc.declare("e", ("ecls", z3.IntSort()), ("eidx", z3.IntSort()))
Sc = _Sc.create()

NONE = Sc.none
TRUE = Sc.b(z3.BoolVal(True))
FALSE = Sc.b(z3.BoolVal(False))


def mk_b(x) -> z3.ExprRef:
    return Sc.b(x if z3.is_expr(x) else z3.BoolVal(bool(x)))


def mk_i(x) -> z3.ExprRef:
    return Sc.i(x if z3.is_expr(x) else z3.IntVal(int(x)))


def mk_s(x) -> z3.ExprRef:
    return Sc.s(x if z3.is_expr(x) else z3.StringVal(str(x)))


def mk_e(cls_id: int, idx) -> z3.ExprRef:
    return Sc.e(z3.IntVal(cls_id), idx if z3.is_expr(idx) else z3.IntVal(int(idx)))


def truthy(t: z3.ExprRef) -> z3.BoolRef:
    """Python truthiness of a scalar (enum members here are str-mixed with non-empty values or plain: truthy)."""
    return z3.If(Sc.is_none(t), z3.BoolVal(False),
                 z3.If(Sc.is_b(t), Sc.bv(t),
                       z3.If(Sc.is_i(t), Sc.iv(t) != 0,
                             z3.If(Sc.is_s(t), z3.Length(Sc.sv(t)) > 0, z3.BoolVal(True)))))


# ----------------------------------------------------------------------------------------------- value classes
class SV:
    """scalar value: z3 term of sort Sc plus a static type hint used only for operator dispatch
    ('bool' | 'int' | 'str' | 'none' | 'enum:<Class>' | None)."""
    __slots__ = ("t", "ty", "view")

    def __init__(self, t: z3.ExprRef, ty: Optional[str] = None, view: Optional[dict] = None) -> None:
        self.t = t
        self.ty = ty
        self.view = view

    def __repr__(self) -> str:
        return f"SV({z3.simplify(self.t)}:{self.ty})"


def sv_none() -> SV:
    return SV(NONE, "none")


def sv_bool(x) -> SV:
    return SV(mk_b(x), "bool")


def sv_int(x) -> SV:
    return SV(mk_i(x), "int")


def sv_str(x) -> SV:
    return SV(mk_s(x), "str")


class Ref:
    __slots__ = ("oid",)

    def __init__(self, oid: int) -> None:
        self.oid = oid

    def __repr__(self) -> str:
        return f"Ref({self.oid})"

    def __eq__(self, o) -> bool:
        return isinstance(o, Ref) and o.oid == self.oid

    def __hash__(self) -> int:
        return hash(("Ref", self.oid))


class Tup:
    __slots__ = ("items",)

    def __init__(self, items: Sequence[Any]) -> None:
        self.items = tuple(items)

    def __repr__(self) -> str:
        return f"Tup{self.items}"


class FuncV:
    """a Python function of the analysed code base (or of a spec / contract file)"""
    __slots__ = ("node", "mod", "closure_fid", "bound_self", "qualname", "cls")

    def __init__(self, node, mod, qualname: str, closure_fid: Optional[int] = None, bound_self=None, cls=None):
        self.node, self.mod, self.qualname = node, mod, qualname
        self.closure_fid, self.bound_self, self.cls = closure_fid, bound_self, cls

    def bind(self, obj) -> "FuncV":
        return FuncV(self.node, self.mod, self.qualname, self.closure_fid, obj, self.cls)

    def __repr__(self) -> str:
        return f"FuncV({self.qualname})"


class ClassV:
    __slots__ = ("name",)

    def __init__(self, name: str) -> None:
        self.name = name

    def __repr__(self) -> str:
        return f"ClassV({self.name})"


class ModV:
    __slots__ = ("name",)

    def __init__(self, name: str) -> None:
        self.name = name

    def __repr__(self) -> str:
        return f"ModV({self.name})"


class BuiltinV:
    """a builtin or assumed library callable, dispatched by dotted name (e.g. 'len', 'asyncio.gather')"""
    __slots__ = ("name", "bound")

    def __init__(self, name: str, bound=None) -> None:
        self.name, self.bound = name, bound

    def __repr__(self) -> str:
        return f"BuiltinV({self.name})"


class CoroV:
    """a coroutine object that has not been awaited yet: (callable, args, kwargs); `await` runs it"""
    __slots__ = ("fn", "args", "kwargs", "kind")

    def __init__(self, fn, args, kwargs, kind: str = "call") -> None:
        self.fn, self.args, self.kwargs, self.kind = fn, args, kwargs, kind

    def __repr__(self) -> str:
        return f"CoroV({self.fn})"


class Opaque:
    """an object of a library type the executor knows nothing about except its tag (loggers, parsers, timezones)"""
    __slots__ = ("tag", "data")

    def __init__(self, tag: str, data=None) -> None:
        self.tag, self.data = tag, data

    def __repr__(self) -> str:
        return f"Opaque({self.tag})"


class Exc:
    """raise outcome: class name + reference to the exception object"""
    __slots__ = ("cls", "ref")

    def __init__(self, cls: str, ref: Optional[Ref]) -> None:
        self.cls, self.ref = cls, ref

    def __repr__(self) -> str:
        return f"Exc({self.cls})"


# ----------------------------------------------------------------------------------------------- heap objects
class Obj:
    """instance: concrete class name, or a symbolic class (`kind` = z3 Int over `cands`)"""
    __slots__ = ("cls", "kind", "cands", "fields", "tag", "ident")

    def __init__(self, cls: Optional[str], fields: Dict[str, Any], kind=None, cands: Optional[List[str]] = None,
                 tag: Optional[str] = None, ident=None) -> None:
        self.cls, self.fields, self.kind, self.cands, self.tag = cls, fields, kind, cands, tag
        self.ident = ident  # symbolic identity (a z3 Sc term) of elements of symbolic sequences

    def copy(self) -> "Obj":
        return Obj(self.cls, dict(self.fields), self.kind, self.cands, self.tag, self.ident)


class ListObj:
    __slots__ = ("lt",)

    def __init__(self, lt) -> None:
        self.lt = lt

    def copy(self) -> "ListObj":
        return ListObj(self.lt)


class DictObj:
    """dict with a concrete number of entries (keys may be symbolic scalars), insertion ordered; `tail` optionally
    holds an LT of (key, value) pairs appended by an accumulating loop"""
    __slots__ = ("entries", "tail", "distinct_keys")

    def __init__(self, entries: List[Tuple[Any, Any]], tail=None, distinct_keys: bool = False) -> None:
        self.entries, self.tail = entries, tail
        self.distinct_keys = distinct_keys  # the keys of the tail are known to be pairwise distinct (a dict parameter)

    def copy(self) -> "DictObj":
        return DictObj(list(self.entries), self.tail, self.distinct_keys)


class Unsupported(Exception):
    """the analysed function left the supported subset: all its obligations are *undecided* (never a violation)"""
