"""Contracts of the gather sites of C12: RcEvaluator.evaluate_conditions, FcEvaluator.evaluate_format_constraints,
HintsProvider.get_hints, ConditionNodeBuilder._build_* - every key is paired with the value produced FOR IT.  The
single evaluations are user code: modelled as functions of the key (rc_value(k), fc_value(k, text), hint_text(k)) that
may also raise; that is the precondition under which 'the value produced for a key' is well defined."""
import z3

from pyvc import assumed
from pyvc import lists as L
from pyvc.contracts import Bool, Const, DictOf, Enum, Inst, Opt, Raw, SeqOf, Str, contract
from pyvc.values import DictObj, ListObj, Obj, Opaque, Ref, Sc, SV, Tup, mk_s, sv_none
from specs.ghost import abstract_value

RCE = "ahbicht.content_evaluation.rc_evaluators:RcEvaluator."
FCE = "ahbicht.content_evaluation.fc_evaluators:FcEvaluator."
HP = "ahbicht.expressions.hints_provider:HintsProvider."
CNB = "ahbicht.condition_node_builder:ConditionNodeBuilder."


def _keys():
    return SeqOf(lambda ex, st, name, i: Str().make(ex, st, name))


def _user_value(name, argnames):
    def hook(ex, st, bound):
        from pyvc import ghosts
        args = [bound[a] for a in argnames]
        (_, v), = ghosts.abstract_value(ex, st, [SV(mk_s(name), "str")] + args, {}, None)
        return [ex.raise_(st.fork(), "Exception", None), ex.raise_(st.fork(), "NotImplementedError", None), (st, v)]
    return hook


@contract(RCE + "evaluate_single_condition", prop=["C12"])
class EvaluateSingleCondition:
    """user-supplied evaluation of one requirement constraint: modular view only (a function of the key, or raises)"""
    params = dict(self=Inst("RcEvaluator"), condition_key=Str())
    raises = {"Exception": None, "NotImplementedError": None}
    hook = _user_value("rc_value", ["condition_key"])


@contract(RCE + "evaluate_conditions", prop=["C12"])
class EvaluateConditions:
    """every key is mapped to the value its own task produced, whatever the completion order (A-ASYNCIO: gather
    returns results in argument order)"""
    params = dict(self=Inst("RcEvaluator"), condition_keys=_keys(),
                  evaluatable_data=Raw(lambda ex, st, n: Opaque("inst:EvaluatableData")),
                  condition_keys_with_context=Const(None))
    raises = {"Exception": None, "NotImplementedError": None}

    def post_every_key_gets_its_own_value(self, condition_keys, evaluatable_data, condition_keys_with_context, result):
        return all(k in result and result[k] == abstract_value("rc_value", k) for k in condition_keys)

    def post_nothing_else(self, condition_keys, evaluatable_data, condition_keys_with_context, result):
        return all(k in condition_keys for k in result.keys())

    def hook(ex, st, bound):
        """modular view: the mapping key -> rc_value(key) over the given keys, or an exception of a single evaluation"""
        from pyvc import ghosts
        keys = ex.as_lt(st, bound["condition_keys"])

        def f(k, binders):
            (_, v), = ghosts.abstract_value(ex, st, [SV(mk_s("rc_value"), "str"), k], {}, None)
            return L.LT([L.Unit(Tup([k, v]))])
        d = ex.alloc(st, DictObj([], L.lt_map(keys, f)))
        return [ex.raise_(st.fork(), "Exception", None), ex.raise_(st.fork(), "NotImplementedError", None), (st, d)]


def _fc_hook(ex, st, bound):
    from pyvc import ghosts
    ctx = st.ghost.get("ctx")
    if ctx is None:
        ctx = ex.fresh_sv("ctx_text_at_entry")
        st.assume(z3.Or(Sc.is_none(ctx.t), Sc.is_s(ctx.t)), axiom=True)
        st.ghost["ctx"] = ctx
    (_, v), = ghosts.abstract_value(ex, st, [SV(mk_s("fc_value"), "str"), bound["condition_key"], ctx], {}, None)
    return [ex.raise_(st.fork(), "Exception", None), ex.raise_(st.fork(), "NotImplementedError", None), (st, v)]


@contract(FCE + "evaluate_format_constraints", prop=["C12", "C08"])
class EvaluateFormatConstraints:
    params = dict(self=Inst("FcEvaluator"), condition_keys=_keys())
    raises = {"Exception": None, "NotImplementedError": None}

    returns = DictOf(lambda ex, st, n, i: Str().make(ex, st, n), lambda ex, st, n, i: ex.fresh_sv(n))
    ghost_inherit = {"ctx": lambda: Opt(Str())}

    def post_every_key_gets_its_own_value(self, condition_keys, result, ghost_ctx):
        return all(k in result and result[k] == abstract_value("fc_value", k, ghost_ctx) for k in condition_keys)

    def post_nothing_else(self, condition_keys, result):
        return all(k in condition_keys for k in result.keys())

    def setup(ex, st, values):
        ctx = ex.fresh_sv("ctx_text_at_entry")
        st.assume(z3.Or(Sc.is_none(ctx.t), Sc.is_s(ctx.t)), axiom=True)
        st.ghost["ctx"] = ctx


@contract(HP + "get_hint_text", prop=["C12"])
class GetHintText:
    """user-supplied hint lookup: modular view only (hint_text(key): a str or None, or raises)"""
    params = dict(self=Inst("HintsProvider"), condition_key=Str())
    raises = {"Exception": None}

    def hook(ex, st, bound):
        from pyvc import ghosts
        (_, v), = ghosts.abstract_value(ex, st, [SV(mk_s("hint_text"), "str"), bound["condition_key"]], {}, None)
        st.assume(z3.Or(Sc.is_none(v.t), Sc.is_s(v.t)), axiom=True)
        return [ex.raise_(st.fork(), "Exception", None), (st, v)]


@contract(HP + "get_hints", prop=["C12"])
class GetHints:
    """(asynchronous providers) every key with a text is mapped to Hint(text of THIS key); KeyError iff some key has
    no text and raise_key_error"""
    params = dict(self=Inst("HintsProvider", logger=Raw(lambda ex, st, n: Opaque("logging.logger"))),
                  condition_keys=_keys(), raise_key_error=Bool())
    raises = {"KeyError": "raises_missing_hint", "Exception": None}
    returns = DictOf(lambda ex, st, n, i: Str().make(ex, st, n),
                     lambda ex, st, n, i: Inst("Hint", condition_key=Str(), hint=Str(),
                                               conditions_fulfilled=Raw(lambda e_, s_, n_: e_.enum_member(
                                                   "ConditionFulfilledValue", "NEUTRAL"))).make(ex, st, n))

    def raises_missing_hint(self, condition_keys, raise_key_error):
        return raise_key_error and any(abstract_value("hint_text", k) is None for k in condition_keys)

    def post_every_key_gets_its_own_hint(self, condition_keys, raise_key_error, result):
        return all(abstract_value("hint_text", k) is None
                   or (k in result and result[k].hint == abstract_value("hint_text", k) and result[k].condition_key == k)
                   for k in condition_keys)


# ---- ConditionNodeBuilder ---------------------------------------------------------------------------------------------------
from ahbicht.models.condition_nodes import (ConditionFulfilledValue, Hint, RequirementConstraint,  # noqa: E402
                                            UnevaluatedFormatConstraint)


def _tlp_attr(kind):
    def h(ex, st, args, kwargs, fn):
        """user-supplied TokenLogicProvider: returns the evaluator / provider or raises NotImplementedError"""
        return [ex.raise_(st.fork(), "NotImplementedError", None), (st, ex.alloc(st, Obj(kind, {
            "logger": Opaque("logging.logger")})))]
    return h


assumed.LIBRARY["inst:TokenLogicProvider.get_rc_evaluator()"] = _tlp_attr("RcEvaluator")
assumed.LIBRARY["inst:TokenLogicProvider.get_fc_evaluator()"] = _tlp_attr("FcEvaluator")
assumed.LIBRARY["inst:TokenLogicProvider.get_hints_provider()"] = _tlp_attr("HintsProvider")


def _builder(**lists):
    f = dict(token_logic_provider=Raw(lambda ex, st, n: Opaque("inst:TokenLogicProvider")))
    f.update(lists)
    return Inst("ConditionNodeBuilder", **f)


@contract(CNB + "_build_unevaluated_format_constraint_nodes", prop=["C04", "C12"])
class BuildUfcNodes:
    """every format-constraint key gets an UnevaluatedFormatConstraint of its own key, NEUTRAL by class default"""
    params = dict(self=_builder(format_constraints_condition_keys=_keys()))
    raises = {}
    returns = DictOf(lambda ex, st, n, i: Str().make(ex, st, n),
                     lambda ex, st, n, i: Inst("UnevaluatedFormatConstraint", condition_key=Str(),
                                               conditions_fulfilled=Enum("ConditionFulfilledValue")).make(ex, st, n))

    def post_every_key_gets_a_neutral_node(self, result):
        return all(k in result and isinstance(result[k], UnevaluatedFormatConstraint) and result[k].condition_key == k
                   and result[k].conditions_fulfilled == ConditionFulfilledValue.NEUTRAL
                   for k in self.format_constraints_condition_keys)


@contract(CNB + "_build_requirement_constraint_nodes", prop=["C04", "C12"])
class BuildRcNodes:
    """every requirement key gets a RequirementConstraint carrying the value evaluated FOR THIS key"""
    params = dict(self=_builder(requirement_constraints_condition_keys=_keys()),
                  evaluatable_data=Raw(lambda ex, st, n: Opaque("inst:EvaluatableData")))
    raises = {"Exception": None, "NotImplementedError": None, "TypeError": None}
    returns = DictOf(lambda ex, st, n, i: Str().make(ex, st, n),
                     lambda ex, st, n, i: Inst("RequirementConstraint", condition_key=Str(),
                                               conditions_fulfilled=Enum("ConditionFulfilledValue")).make(ex, st, n))

    def post_every_key_gets_its_own_value(self, evaluatable_data, result):
        return all(k in result and isinstance(result[k], RequirementConstraint) and result[k].condition_key == k
                   and result[k].conditions_fulfilled == abstract_value("rc_value", k)
                   for k in self.requirement_constraints_condition_keys)

    def pre(self, evaluatable_data):
        # the evaluator returns condition states (attrs validator of RequirementConstraint): user-code precondition
        return True


@contract(CNB + "_build_hint_nodes", prop=["C04", "C12"])
class BuildHintNodes:
    """hands exactly its hint keys to the hints provider and returns exactly what the provider's get_hints returns"""
    params = dict(self=_builder(hints_condition_keys=_keys()),
                  evaluatable_data=Raw(lambda ex, st, n: Opaque("inst:EvaluatableData")))
    raises = {"Exception": None, "NotImplementedError": None, "KeyError": None}
    returns = DictOf(lambda ex, st, n, i: Str().make(ex, st, n),
                     lambda ex, st, n, i: Inst("Hint", condition_key=Str(), hint=Str(),
                                               conditions_fulfilled=Enum("ConditionFulfilledValue")).make(ex, st, n))

    def post_forwards_keys_and_result(self, evaluatable_data, result, ghost_GetHints_condition_keys,
                                      ghost_GetHints_result):
        return ghost_GetHints_condition_keys is self.hints_condition_keys and result is ghost_GetHints_result


@contract("ahbicht.expressions.format_constraint_expression_evaluation:_build_evaluated_format_constraint_nodes",
          prop=["C08", "C12"], key="ahbicht.expressions.format_constraint_expression_evaluation:_build_evaluated_format_constraint_nodes#body")
class BuildEfcNodesBody:
    """own body: hands exactly its keys to the FC evaluator and returns exactly its mapping"""
    params = dict(evaluatable_format_constraint_keys=_keys(),
                  evaluatable_data=Raw(lambda ex, st, n: Opaque("inst:EvaluatableData")))
    raises = {"Exception": None, "NotImplementedError": None}

    def post_forwards_keys_and_result(evaluatable_format_constraint_keys, evaluatable_data, result,
                                      ghost_EvaluateFormatConstraints_condition_keys,
                                      ghost_EvaluateFormatConstraints_result):
        return ghost_EvaluateFormatConstraints_condition_keys is evaluatable_format_constraint_keys \
            and result is ghost_EvaluateFormatConstraints_result
