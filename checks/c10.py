"""C10 - resolving packages and time conditions is exact bracketed substitution: hybrid.
P: UB1/2/3 mapping, package lookup (exactly the asked key, exactly the resolver's expression, NotImplementedError for an
unknown package), packages before time conditions.  B: the placeholder replacement pass vs a textual oracle."""
from checks.common import prove, run_bounded
from vlib.report import Ctx

LEVEL = "other"
R = "ahbicht.expressions.expression_resolver:"
TARGETS = [R + "TimeConditionTransformer.time_condition", R + "PackageExpansionTransformer._package_async",
           R + "expand_packages", R + "expand_time_conditions", R + "parse_expression_including_unresolved_subexpressions"]


def run(ctx: Ctx) -> None:
    ctx.explanation = (
        "PROVED (z3): time_condition returns condition[932] / condition[934] / the parse of the literal "
        "'[932][492]X[934][493]' for UB1 / UB2 / UB3 (the literal is folded through the real parser); _package_async "
        "asks the resolver for exactly the package key of the token, raises NotImplementedError iff the resolver has "
        "no expression and otherwise returns the parse of exactly that expression; the resolver replaces time "
        "conditions in the tree that already contains the expanded packages. BOUNDED: that every occurrence is "
        "replaced in place (_replace_sub_coroutines_with_awaited_results mutates a tree under two live lark "
        "generators) - resolved tree == parse of the textual substitution, one level only.")
    ctx.trust("A-LARK-FOLD", "A-INJECT", "placeholder replacement pass: bounded only")
    prove(ctx, TARGETS)
    run_bounded(ctx, "C10")
