"""Glue between pyvc (obligations) / the bounded stand-ins and the report layer."""
from __future__ import annotations

import importlib
import json
import os
import pkgutil
import time
from pathlib import Path
import traceback
from typing import Any, Dict, List, Optional, Sequence

import ahbicht.content_evaluation  # noqa: F401  (first import: avoids a circular import inside ahbicht)
from pyvc.contracts import LEMMAS, REGISTRY
from pyvc.replay import replay_obligation
from pyvc.vc import Obl, Verifier
from vlib.report import Ctx, _jsonable

_verifier: Optional[Verifier] = None


def load_sidecars() -> None:
    import contracts
    for m in pkgutil.iter_modules(contracts.__path__):
        importlib.import_module(f"contracts.{m.name}")


def verifier() -> Verifier:
    global _verifier
    if _verifier is None:
        load_sidecars()
        _verifier = Verifier()
    return _verifier


def _register_function(ctx: Ctx, v: Verifier, target: str, kind: str = "P") -> None:
    try:
        mod, node, ci = v.ex.repo.function(REGISTRY[target].target if target in REGISTRY else target)
        ctx.function_under_contract(target, str(mod.path), node.lineno, v.ex.repo.source_of(mod, node), kind)
    except Exception as e:  # noqa
        ctx.note(f"contract target {target} not found in the current source: {e}")


def _decide(v: Verifier, o: Obl, target: Optional[str]) -> Dict[str, Any]:
    """turns a pyvc obligation into a plain record; a counter-model is concretised and replayed on the real code"""
    rec: Dict[str, Any] = {"name": o.name, "status": o.status, "paths": o.paths, "seconds": o.seconds,
                           "detail": o.detail, "witness": None, "replayed": False, "solver_output": o.solver_output,
                           "target": target}
    if o.status != "violated":
        return rec
    c = REGISTRY.get(target) if target else None
    cc = c if c is not None else type("C", (), {"concretize": None})()
    witness = v.concretize(cc, o)
    first_witness = witness
    refuted, tried = 0, 0
    models = iter(v.more_models(o)) if c is not None else iter(())
    while True:
        if witness is not None and c is not None and _faithful(witness, c):
            tried += 1
            try:
                bad, rmsg = replay_obligation(c, o.name, witness)
            except BaseException as e:  # noqa
                bad, rmsg = None, f"replay failed: {type(e).__name__}: {e}"
            if bad is True:
                rec["replayed"] = True
                rec["detail"] = f"{o.detail}; replay on the real code: {rmsg}"
                rec["witness"] = _jsonable(witness)
                return rec
            if bad is False:
                refuted += 1
                last_refutation = rmsg
            else:
                rec["detail"] = f"{o.detail}; {rmsg}"
        m = next(models, None)
        if m is None:
            break
        o.model = (o.model[0], m)
        witness = v.concretize(cc, o)
    if tried and refuted == tried:
        if c is not None and not getattr(c.cls, "replay_is_conclusive", True):
            # the contract mentions uninterpreted callee results: our native realisation of them need not match the
            # counter-model, so a passing replay refutes nothing - the obligation stays violated, without witness
            rec["detail"] = (f"{o.detail}; {tried} counter-models were realised natively and the real code satisfied "
                             f"the contract on each of them (the realisation of the abstract callee results is not "
                             f"the one of the counter-model)")
            rec["witness"] = None
            return rec
        rec["status"] = "undecided"
        rec["detail"] = (f"{tried} counter-model(s) refuted by replay on the real code ({last_refutation}); "
                         f"encoder imprecision")
    rec["witness"] = _jsonable(first_witness) if first_witness is not None and not tried else None
    return rec


def _faithful(w, c=None, top=True) -> bool:
    """can the concretised arguments be handed to the real function?  (None = a value the model does not determine,
    a dict with __error__ = an object that could not be constructed natively; `self` of a contract with its own
    call_native is exempt)"""
    if isinstance(w, dict):
        if "__error__" in w or "__class__" in w:
            return False
        if top and c is not None:
            # an argument the model leaves at None although its specification is an object built by a maker function
            # (an opaque tree, an evaluator ...) cannot be handed to the real function as None: the replay would judge
            # f(None), not the counter-model
            from pyvc.contracts import Raw
            specs = {}
            for case in ([c.params] if getattr(c, "params", None) else []) + list(getattr(c, "cases", None) or []):
                specs.update(case or {})
            for k, v in w.items():
                if v is None and isinstance(specs.get(k), Raw) and not (k == "self" and c.call_native is not None):
                    return False
        return all(_faithful(v, c, False) for k, v in w.items()
                   if not (top and k == "self" and c is not None and c.call_native is not None))
    if isinstance(w, (list, tuple)):
        return all(_faithful(v, c, False) for v in w)
    return w is not None or not top


def report_record(ctx: Ctx, rec: Dict[str, Any]) -> None:
    st = rec["status"]
    ctx.obligation(rec["name"], st, seconds=rec["seconds"], paths=rec["paths"], detail=rec["detail"] or None)
    if st == "violated":
        w = rec["witness"]
        ctx.violation(rec["name"], rec["detail"], witness=w, replayed=rec["replayed"],
                      signature=f"{rec['name']}|{json.dumps(w, sort_keys=True, default=repr)[:200]}",
                      solver_output=rec["solver_output"],
                      replay_code=f"target={rec['target']}")


def _worker(job) -> Dict[str, Any]:
    import logging
    logging.disable(logging.CRITICAL)
    target, prop = job
    v = verifier()
    v.second_backend = os.environ.get("VERIF_SECOND_BACKEND", "") == "1"
    v.crosscheck = os.environ.get("VERIF_CROSSCHECK", "") == "1"
    v.cross = {"paths_replayed": 0, "agree": 0, "skipped": 0, "disagreements": []}
    v.stats = {k: 0 for k in v.stats}
    v.disagreements = []
    t0 = time.time()
    obls = v.verify(target, only=REGISTRY[target].clauses_for(prop))
    recs = [_decide(v, o, target) for o in obls]
    return {"target": target, "records": recs, "assumed": sorted(getattr(v.ex, "assumed_used", ())),
            "stats": dict(v.stats), "disagreements": list(v.disagreements), "cross": dict(v.cross),
            "inlined": sorted(v.ex.inlined_seen), "seconds": time.time() - t0,
            "unknown_calls": sorted(getattr(v.ex, "unknown_calls", ()))}


def _lemma_worker(key: str) -> Dict[str, Any]:
    v = verifier()
    v.second_backend = os.environ.get("VERIF_SECOND_BACKEND", "") == "1"
    o = v.verify_lemma(key)
    rec = _decide(v, o, None)
    if rec["status"] == "violated":
        rec["detail"] += " (lemma over the contracts; counter-model of the solver attached)"
    return rec


def _pool_map(fn, items: Sequence[Any]) -> List[Any]:
    import multiprocessing as mp
    items = list(items)
    if len(items) <= 1:
        return [fn(x) for x in items]
    load_sidecars()
    with mp.get_context("fork").Pool(min(16, len(items))) as pool:
        return pool.map(fn, items, chunksize=1)


def prove(ctx: Ctx, targets: Sequence[str], kind: str = "P", by_property: bool = True) -> None:
    load_sidecars()
    for t in targets:
        if t not in REGISTRY:
            raise RuntimeError(f"no contract registered for {t}")
    v = verifier()
    for t in targets:
        _register_function(ctx, v, t, kind)
    os.environ["VERIF_CROSSCHECK"] = "1"  # CPython cross-check of the symbolic summaries (cheap: every tier)
    if ctx.tier == "thorough":
        os.environ["VERIF_SECOND_BACKEND"] = "1"  # inherited by the forked workers
    for res in _pool_map(_worker, [(t, ctx.prop if by_property else None) for t in targets]):
        st = res.get("stats", {})
        sb = ctx.crosscheck.setdefault("second_backend", {"queries": 0, "cvc5_unsat": 0, "cvc5_unknown": 0, "cvc5_sat": 0,
                                                          "z3old_unsat": 0, "z3old_unknown": 0, "z3old_sat": 0})
        sb["queries"] += st.get("second_backend_queries", 0)
        for k in ("cvc5_unsat", "cvc5_unknown", "cvc5_sat", "z3old_unsat", "z3old_unknown", "z3old_sat"):
            sb[k] += st.get(k, 0)
        # margin to the per-query budget (10 s): the slowest single solver query of this check, and how many there were
        ctx.crosscheck["slowest_query_ms"] = max(ctx.crosscheck.get("slowest_query_ms", 0), st.get("max_query_ms", 0))
        ctx.crosscheck["solver_queries"] = ctx.crosscheck.get("solver_queries", 0) + st.get("queries", 0)
        cr = res.get("cross", {})
        if cr.get("paths_replayed"):
            ctx.crosscheck["summaries"] += 1
            ctx.crosscheck["concrete_runs"] += cr["paths_replayed"]
        for d in cr.get("disagreements", [])[:3]:
            ctx.crosscheck["disagreements"] += 1
            ctx.obligation(f"encoder-agrees-with-cpython/{res['target'].split(':')[-1]}", "undecided",
                           backend="CPython cross-check of the symbolic summary", detail=d)
            ctx.note(f"ENCODER DISAGREEMENT (checker problem, not a verdict): {d}")
        for d in res.get("disagreements", [])[:3]:
            ctx.obligation(f"backends-agree/{res['target'].split(':')[-1]}", "undecided",
                           backend="cvc5 1.0.3 / z3 4.8.12 via SMT-LIB2", detail=d)
        if not res["records"]:
            raise RuntimeError(f"zero obligations generated for {res['target']}: checker error")
        for rec in res["records"]:
            report_record(ctx, rec)
        for a in res["assumed"]:
            ctx.trust(a) if a.startswith("A-") else ctx.assume(a)
        for q in res["inlined"]:
            if q.startswith("ahbicht") and q not in ctx.inlined and q not in targets:
                ctx.inlined.append(q)
    if ctx.tier == "thorough":
        runtime_contracts(ctx, targets)


def prove_lemmas(ctx: Ctx, module: str, names: Optional[Sequence[str]] = None) -> None:
    load_sidecars()
    keys = [k for k in LEMMAS if k.startswith(module + ":") and (names is None or k.split(":")[1] in names)]
    if not keys:
        raise RuntimeError(f"no lemma found in {module}: checker error")
    for rec in _pool_map(_lemma_worker, keys):
        report_record(ctx, rec)


def list_theory_obligations(ctx: Ctx) -> None:
    """the inductive lemmas about filtered sequences the engine assumes (pyvc/listtheory.py): proved here, each run, by
    explicit induction (base / step are separate queries); a lemma that does not go through leaves the proofs that use
    it undecided.  The canary (a false variant) must stay unprovable."""
    from pyvc import listtheory
    for name, status, secs in listtheory.prove_lemmas():
        ctx.obligation(f"list-theory/{name}", "discharged" if status == "discharged" else "undecided",
                       backend="z3 (explicit induction: base and step)", seconds=secs,
                       detail=None if status == "discharged" else f"solver answer: {status}")
    t0 = time.time()
    ok = listtheory.canary()
    ctx.obligation("list-theory/canary-false-variant-is-not-provable", "discharged" if ok else "undecided",
                   backend="z3", seconds=time.time() - t0,
                   detail=None if ok else "the definitions of the filtered-sequence theory prove a false statement")


def guarded(ctx: Ctx, prop: str, fn, what: str = "bounded harness") -> None:
    """runs a bounded harness.  An exception it did not expect, raised INSIDE the code under test (innermost frame in
    the repository), means the harness cannot go on with this tree: that decides nothing (an undecided obligation with
    the location), it is neither a crash of the checker nor a violation.  Anything else is a checker error."""
    t0 = time.time()
    try:
        fn()
    except BaseException as e:  # noqa  (ahbicht's InvalidExpressionError derives from BaseException)
        if isinstance(e, (KeyboardInterrupt, SystemExit, GeneratorExit)):
            raise
        tb = traceback.extract_tb(e.__traceback__)
        repo_src = os.path.realpath(os.environ.get("AHBICHT_REPO", "/repo"))
        missing_name = isinstance(e, (AttributeError, ImportError)) and "ahbicht" in str(e)
        if not tb or not (os.path.realpath(tb[-1].filename).startswith(repo_src) or missing_name):
            raise
        where = f"{tb[-1].filename}:{tb[-1].lineno} in {tb[-1].name}"
        if missing_name:
            # the harness reaches the code under test through a name the tree no longer has (renamed / moved helper)
            ctx.obligation("bounded/harness-completed", "undecided", backend="CPython (bounded harness)",
                           seconds=time.time() - t0,
                           detail=f"{type(e).__name__}: {str(e)[:200]} at {where}: the {what} of {prop} uses a name of the "
                                  f"library that this tree does not have; the remaining bounded clauses were not evaluated")
            ctx.note(f"{what} of {prop} stopped: {type(e).__name__}: {str(e)[:120]}")
            return
        ctx.obligation("bounded/harness-completed", "undecided", backend="CPython (bounded harness)",
                       seconds=time.time() - t0,
                       detail=f"the code under test raised {type(e).__name__}: {str(e)[:200]} at {where}, which the {what} "
                              f"of {prop} does not expect; the remaining bounded clauses were not evaluated")
        ctx.note(f"{what} of {prop} stopped: {type(e).__name__} at {where}")


def run_bounded(ctx: Ctx, prop: str) -> bool:
    """runs bounded/<prop>.py if it exists"""
    try:
        m = importlib.import_module(f"bounded.{prop.lower()}")
    except ModuleNotFoundError as e:
        if f"bounded.{prop.lower()}" in str(e):
            ctx.note(f"no bounded stand-in module for {prop}")
            return False
        raise
    if not any("/state/" in o["name"] for o in ctx.obligations):
        # every property is stated for every call, whatever happened before: the ground frame obligations on
        # process-wide state belong to each of them (C11 / C18 emit them themselves, with the tree_copy part)
        guarded(ctx, prop, lambda: encapsulation_obligations(ctx, cached_function_private=False))
    guarded(ctx, prop, lambda: m.run(ctx, ctx.tier, ctx.seed))
    return True


def runtime_contracts(ctx: Ctx, targets: Sequence[str]) -> None:
    """thorough tier: the contracts are installed over the real functions while the repository's own test suite runs
    (subprocess); a firing clause is a NOTE + undecided obligation (too strict a contract, or a defect the tests do
    not assert) - never a violation by itself"""
    import subprocess
    import sys
    t0 = time.time()
    load_sidecars()
    targets = [t for t in targets if t in REGISTRY and REGISTRY[t].runtime_checkable]
    if not targets:
        return
    r = subprocess.run([sys.executable, "-W", "ignore", "-m", "vlib.runtime_main", json.dumps(list(targets))],
                       capture_output=True, text=True, cwd=str(Path(__file__).resolve().parent.parent), timeout=1200)
    line = next((l for l in r.stdout.splitlines() if l.startswith("RUNTIME-JSON ")), None)
    if line is None:
        ctx.obligation("runtime/contracts-hold-during-the-repository-test-suite", "undecided",
                       backend="native contract checking", detail=(r.stdout + r.stderr)[-300:])
        return
    data = json.loads(line[len("RUNTIME-JSON "):])
    calls = sum(s.get("checked", 0) for s in data["stats"].values())
    ctx.crosscheck["concrete_runs"] += calls
    ctx.crosscheck["summaries"] += data["installed"]
    status = "discharged" if not data["fired"] and data["pytest_exit"] == 0 and calls > 0 else "undecided"
    ctx.obligation("runtime/contracts-hold-during-the-repository-test-suite", status,
                   backend="native contract checking under CPython (repository test suite)", seconds=time.time() - t0,
                   detail=f"{data['installed']} contracts installed, {calls} calls checked, pytest: {data['pytest_tail']}; "
                          f"fired: {data['fired'][:3]}")
    for f in data["fired"][:5]:
        ctx.note(f"runtime contract fired (too strict a clause, or a defect the tests do not assert): {f}")


# ---- encapsulation (ownership) obligations on process-wide state ------------------------------------------------------------
_CACHE_DECORATORS = ("lru_cache", "cache", "cached_property", "memoize", "memoized", "cached", "alru_cache")
_PARSERS = {("ahbicht.expressions.condition_expression_parser", "parse_condition_expression_to_tree"),
            ("ahbicht.expressions.ahb_expression_parser", "parse_ahb_expression_to_single_requirement_indicator_expressions")}


def _decorator_name(d) -> str:
    import ast
    if isinstance(d, ast.Call):
        d = d.func
    if isinstance(d, ast.Attribute):
        return d.attr
    return d.id if isinstance(d, ast.Name) else ""


def encapsulation_obligations(ctx: Ctx, cached_function_private: bool = True) -> None:
    """Ground obligations on the ASTs of ALL repository modules (sufficient conditions behind every 'whatever happened
    before' argument: C11, the enumeration of C18).  A failing one refutes nothing - it is *undecided*; the bounded
    history replays decide.
    state/only-the-two-parser-caches-memoise : the only functions decorated with a memoising decorator are the two
        parsers, each with `tree_copy` as its OUTERMOST decorator (so every other function computes its result anew)
    state/cached-function-does-not-escape-tree_copy : inside tree_copy the cached function is only called / asked for
        cache_info(); it is not returned, stored, passed on (functools.wraps would publish it as __wrapped__), and
        `decorated` carries no decorator
    state/no-access-path-around-the-copy : no module mentions __wrapped__ / __closure__ / cell_contents / cache_clear
    """
    import ast
    v = verifier()
    t0 = time.time()
    memo, order_bad, around = [], [], []
    for name, mod in v.ex.repo.modules.items():
        if not name.startswith("ahbicht"):
            continue
        for node in ast.walk(mod.tree):
            if isinstance(node, (ast.FunctionDef, ast.AsyncFunctionDef)):
                names = [_decorator_name(d) for d in node.decorator_list]
                if any(n in _CACHE_DECORATORS for n in names):
                    memo.append((name, node.name))
                    if (name, node.name) in _PARSERS and (not names or names[0] != "tree_copy"):
                        order_bad.append(f"{name}:{node.name} decorators {names}")
            if isinstance(node, ast.Attribute) and node.attr in ("__wrapped__", "__closure__", "cell_contents", "cache_clear",
                                                                 "cache_parameters"):
                around.append(f"{name}:{node.lineno} .{node.attr}")
            if isinstance(node, ast.Constant) and node.value in ("__wrapped__", "__closure__", "cell_contents"):
                around.append(f"{name}:{node.lineno} {node.value!r}")
    others = sorted(set(memo) - _PARSERS)
    missing = sorted(_PARSERS - set(memo))
    ok = not others and not missing and not order_bad
    ctx.obligation("state/only-the-two-parser-caches-memoise", "discharged" if ok else "undecided",
                   backend="ground check on the ASTs of all modules", seconds=time.time() - t0,
                   detail=f"memoised functions: {sorted(memo)}; others than the two parsers: {others}; parser without cache: "
                          f"{missing}; tree_copy not outermost: {order_bad}")
    state_obligations(ctx)
    if not cached_function_private:
        return
    t1 = time.time()
    escapes: List[str] = []
    try:
        mod, node, _ = v.ex.repo.function("ahbicht.utility_functions:tree_copy")
        param = node.args.args[0].arg
        parents = {}
        for n in ast.walk(node):
            for c in ast.iter_child_nodes(n):
                parents[c] = n
        for n in ast.walk(node):
            if isinstance(n, (ast.FunctionDef, ast.AsyncFunctionDef)) and n is not node and n.decorator_list:
                escapes.append(f"inner function {n.name} is decorated ({[ast.unparse(d) for d in n.decorator_list]})")
            if isinstance(n, ast.Name) and n.id == param and isinstance(n.ctx, ast.Load):
                p = parents.get(n)
                called = isinstance(p, ast.Call) and p.func is n
                info = isinstance(p, ast.Attribute) and p.attr == "cache_info" and isinstance(parents.get(p), ast.Call) \
                    and parents[p].func is p
                if not (called or info):
                    escapes.append(f"line {n.lineno}: {ast.unparse(p) if p is not None else param}"[:120])
            if isinstance(n, ast.Name) and n.id == param and not isinstance(n.ctx, ast.Load):
                escapes.append(f"line {n.lineno}: {param} is re-bound")
    except Exception as e:  # noqa
        escapes.append(f"tree_copy could not be analysed: {type(e).__name__}: {e}")
    ctx.obligation("state/cached-function-does-not-escape-tree_copy", "discharged" if not escapes else "undecided",
                   backend="ground check on the AST of tree_copy", seconds=time.time() - t1, detail="; ".join(escapes) or None)
    ctx.obligation("state/no-access-path-around-the-copy", "discharged" if not around else "undecided",
                   backend="ground check on the ASTs of all modules", seconds=0.0, detail="; ".join(around[:8]) or None)


_MUTATORS = ("append", "extend", "add", "update", "setdefault", "pop", "popitem", "clear", "insert", "remove", "discard",
             "sort", "reverse", "__setitem__", "appendleft")


def state_obligations(ctx: Ctx) -> None:
    """More ground frame obligations on the ASTs of all repository modules: 'no call leaves anything behind that a later
    call can observe'.  Each is a sufficient condition: failing = *undecided* (hidden state is not wrong by itself; the
    bounded history parts decide), discharged = the class of history-dependent failures it names is excluded.
    state/no-function-writes-module-level-state : no `global`, and no function stores into / calls a mutator of an
        object bound at module level
    state/context-variables-are-the-documented-ones : the only ContextVar is fc_evaluators.text_to_be_evaluated_by_format_constraint
    state/transformers-do-not-rewrite-their-input : no class derives from lark's in-place transformers (A-LARK-FOLD is
        only applicable to `Transformer`, which builds a new result and leaves the tree it is given alone)
    state/no-mutable-default-arguments : no parameter default is a list / dict / set display or constructor call
    """
    import ast
    v = verifier()
    t0 = time.time()
    writes, ctxvars, inplace, defaults = [], [], [], []
    for name, mod in v.ex.repo.modules.items():
        if not name.startswith("ahbicht"):
            continue
        module_names = set()
        for node in mod.tree.body:
            targets = []
            if isinstance(node, ast.Assign):
                targets = node.targets
            elif isinstance(node, ast.AnnAssign) and node.value is not None:
                targets = [node.target]
            for t in targets:
                if isinstance(t, ast.Name):
                    module_names.add(t.id)
                    val = node.value
                    if isinstance(val, ast.Call) and _decorator_name(val) == "ContextVar":
                        ctxvars.append(f"{name}:{t.id}")
        for node in ast.walk(mod.tree):
            if isinstance(node, ast.ClassDef):
                for b in node.bases:
                    bn = _decorator_name(b) if not isinstance(b, ast.Subscript) else _decorator_name(b.value)
                    if bn in ("Transformer_InPlace", "Transformer_InPlaceRecursive", "Transformer_NonRecursive"):
                        inplace.append(f"{name}:{node.name}({bn})")
            if not isinstance(node, (ast.FunctionDef, ast.AsyncFunctionDef)):
                continue
            for d in list(node.args.defaults) + [d for d in node.args.kw_defaults if d is not None]:
                if isinstance(d, (ast.List, ast.Dict, ast.Set)) or \
                        (isinstance(d, ast.Call) and _decorator_name(d) in ("list", "dict", "set", "defaultdict")):
                    defaults.append(f"{name}:{node.name} line {d.lineno}")
            local = {a.arg for a in node.args.args + node.args.kwonlyargs + node.args.posonlyargs}
            for n in ast.walk(node):
                if isinstance(n, (ast.Assign, ast.AnnAssign, ast.For, ast.With, ast.comprehension, ast.NamedExpr)):
                    for t in ast.walk(n.targets[0] if isinstance(n, ast.Assign) else getattr(n, "target", n)):
                        if isinstance(t, ast.Name) and isinstance(t.ctx, ast.Store):
                            local.add(t.id)
            for n in ast.walk(node):
                if isinstance(n, ast.Global):
                    writes.append(f"{name}:{node.name} line {n.lineno}: global {', '.join(n.names)}")
                tgt = None
                if isinstance(n, (ast.Assign, ast.AugAssign, ast.AnnAssign, ast.Delete)):
                    tl = n.targets if isinstance(n, (ast.Assign, ast.Delete)) else [n.target]
                    for t in tl:
                        if isinstance(t, (ast.Subscript, ast.Attribute)):
                            base = t.value
                            while isinstance(base, (ast.Subscript, ast.Attribute)):
                                base = base.value
                            if isinstance(base, ast.Name) and base.id in module_names and base.id not in local:
                                tgt = base.id
                if isinstance(n, ast.Call) and isinstance(n.func, ast.Attribute) and n.func.attr in _MUTATORS:
                    base = n.func.value
                    if isinstance(base, ast.Name) and base.id in module_names and base.id not in local:
                        tgt = base.id
                if tgt:
                    writes.append(f"{name}:{node.name} line {n.lineno}: writes module-level {tgt}")
    dt = time.time() - t0
    expected_cv = ["ahbicht.content_evaluation.fc_evaluators:text_to_be_evaluated_by_format_constraint"]
    for oname, found, ok in (("state/no-function-writes-module-level-state", writes, not writes),
                             ("state/context-variables-are-the-documented-ones", ctxvars, sorted(ctxvars) == expected_cv),
                             ("state/transformers-do-not-rewrite-their-input", inplace, not inplace),
                             ("state/no-mutable-default-arguments", defaults, not defaults)):
        ctx.obligation(oname, "discharged" if ok else "undecided", backend="ground check on the ASTs of all modules",
                       seconds=dt / 4, detail="; ".join(found[:6]) or None)
