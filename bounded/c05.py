"""C05 (bounded stand-in, API level): information-only elements never change the requirement.

Metamorphic: for every valid in-domain base expression within the bound, every variant obtained by
  hint-root     and-ing a hint onto the whole expression (either side),
  hint-operand  and-ing a hint onto an operand of a U/O/X composition (either side),
  fc-attach     attaching a format-constraint leaf by juxtaposition (either side) to a sub-expression that contains a
                requirement constraint,
  brackets      adding redundant brackets around a sub-expression (each one, and all at once),
  swap          swapping the operands of a U/O/X composition
must stay valid (the real evaluation raises no InvalidExpressionError) and must give the same
(requirement_constraints_fulfilled, requirement_is_conditional) as the base under every assignment of
FULFILLED/UNFULFILLED/UNKNOWN to the requirement keys.  Both sides of the comparison are runs of the REAL code.
UNKNOWN monotonicity: a definite real outcome under an assignment with UNKNOWN entries equals the real outcome under
each of its refinements to FULFILLED/UNFULFILLED.
"""
from __future__ import annotations

import random
import time
from typing import Dict, List, Tuple

from bounded import common as bc
from bounded.c04 import (Violations, cut_note, deadline_for, eval_item, make_item, pmap_until, rc_words, replay_snippet,
                         rotating_fc_word)
from specs import treesem as ts

HINT_POOL = ("501", "503")  # one key that may already occur in the base, one that never does
FC_POOL = ("901", "903")
KINDS = ("hint-root", "hint-operand", "fc-attach", "brackets", "swap")


_SYMBOL = {"U": "\u2227", "O": "\u2228", "X": "\u22bb"}


def mixed_notation(text: str, start: int) -> str:
    """every other operator (beginning with the `start`-th) in MaKo2022 symbol notation, the others as letters: the
    statement speaks about every valid expression, also one that mixes both spellings on one bracket level"""
    out, n = [], 0
    parts = text.split(" ")
    for p_ in parts:
        if p_ in _SYMBOL:
            out.append(_SYMBOL[p_] if (n + start) % 2 == 0 else p_)
            n += 1
        else:
            out.append(p_)
    return " ".join(out)


def variants(base: ts.Tree) -> List[Tuple[str, str, ts.Tree, str]]:
    """[(kind, description, variant tree, variant text)] – every position, every pool key, both sides"""
    out = []

    def add(kind, descr, tree, text=None):
        out.append((kind, descr, tree, text if text is not None else ts.render(tree)))

    for h in HINT_POOL:
        hl = ts.Leaf(ts.HINT, h)
        add("hint-root", f"({{e}}) U [{h}]", ts.Node(ts.AND, base, hl))
        add("hint-root", f"[{h}] U ({{e}})", ts.Node(ts.AND, hl, base))
    pos = list(ts.positions(base))
    for path, sub in pos:
        if not ts.is_leaf(sub) and sub.op in ts.BOOL_OPS:
            for side, child in ((0, sub.l), (1, sub.r)):
                for h in HINT_POOL:
                    hl = ts.Leaf(ts.HINT, h)
                    add("hint-operand", f"operand {path + (side,)} U [{h}]",
                        ts.replace(base, path + (side,), ts.Node(ts.AND, child, hl)))
                    add("hint-operand", f"[{h}] U operand {path + (side,)}",
                        ts.replace(base, path + (side,), ts.Node(ts.AND, hl, child)))
            swapped = ts.replace(base, path, ts.Node(sub.op, sub.r, sub.l))
            add("swap", f"operands of {sub.op} at {path} swapped", swapped)
            for start in (0, 1):
                add("swap", f"operands of {sub.op} at {path} swapped, operators alternately as symbol / letter ({start})",
                    swapped, mixed_notation(ts.render(swapped, style="forced"), start))
        if ts.carries_rc(sub):
            for k in FC_POOL:
                fl = ts.Leaf(ts.FC, k)
                add("fc-attach", f"sub-expression {path} followed by [{k}]",
                    ts.replace(base, path, ts.Node(ts.THEN, sub, fl)))
                add("fc-attach", f"[{k}] followed by sub-expression {path}",
                    ts.replace(base, path, ts.Node(ts.THEN, fl, sub)))
        add("brackets", f"redundant brackets around {path}", base, ts.render(base, extra=[path]))
    if len(pos) > 1:
        add("brackets", "redundant brackets around every sub-expression", base,
            ts.render(base, extra=[p for p, _ in pos]))
        add("brackets", "every composite operand bracketed", base, "((" + ts.render(base, style="full") + "))")
    for kind, descr, tree, text in out:  # the oracle's own view: every variant is in the domain and valid
        assert ts.in_domain(tree) and ts.valid(tree), (kind, descr, text)
    return out


def _outcome(r):
    return (r[1], r[2]) if r[0] == "ok" else r[:2]


def check_bases(ctx, name: str, bases: List[ts.Tree], per_kind, rng: random.Random, exhaustive: bool,
                bound: str, deadline: float, chunk: int = 20000) -> None:
    """per_kind: None = every variant, n = a seeded sample of n variants of every kind per base"""
    t0 = time.time()
    bc.configure_inject()
    items, owner, base_items = [], [], {}  # owner[i] = (base index, None | (kind, descr, text))
    for bi, base in enumerate(bases):
        words = rc_words(base)
        items.append(make_item(base, [(w, rotating_fc_word(len(ts.keys_of(base, ts.FC)), bi + j))
                                      for j, w in enumerate(words)]))
        owner.append((bi, None))
        base_items[bi] = items[-1]
        vs = variants(base)
        if per_kind is not None:
            chosen = []
            for kind in KINDS:
                of_kind = [v for v in vs if v[0] == kind]
                chosen.extend(rng.sample(of_kind, min(per_kind, len(of_kind))))
            vs = chosen
        for vi, (kind, descr, vtree, vtext) in enumerate(vs):
            n_fc = len(ts.keys_of(vtree, ts.FC))
            assert ts.keys_of(vtree, ts.RC) == ts.keys_of(base, ts.RC)
            items.append(make_item(vtree, [(w, rotating_fc_word(n_fc, bi + vi + j)) for j, w in enumerate(words)],
                                   text=vtext))
            owner.append((bi, (kind, descr, vtext)))
    results = pmap_until(eval_item, items, deadline, chunk=chunk)
    exhaustive, bound = exhaustive and len(results) == len(items), bound + cut_note(len(results), len(items))

    base_res: Dict[int, list] = {}
    v_meta = Violations(ctx, name + "/metamorphic")
    v_mono = Violations(ctx, name + "/unknown-monotone")
    evals_meta = evals_base = 0
    pairs, per_kind_count, samples_meta = set(), {k: 0 for k in KINDS}, []
    mono_cases, samples_mono, skipped = set(), [], 0
    for (bi, meta), item, res in zip(owner, items, results):
        text, rc_keys, fc_keys, hint_keys, cases = item
        if meta is None:  # ---------------------------------------------------------------- a base expression
            base_res[bi] = res
            evals_base += len(cases)
            if any(r[0] != "ok" for r in res):
                skipped += 1  # valid by the structural criterion but not evaluable: C04/C06 report that
                continue
            table = {w: _outcome(r) for (w, _), r in zip(cases, res)}
            for w, out in table.items():
                if "K" not in w or out == (None, None):
                    continue
                mono_cases.add((text, w))
                asg = ts.decode_asg(rc_keys, w)
                for ref in ts.refinements(asg):
                    w2 = ts.encode_asg(rc_keys, ref)
                    if table[w2] != out:
                        def recheck(item=item, w=w, w2=w2):
                            a = _outcome(eval_item((*item[:4], ((w, "1" * len(item[2])),)))[0])
                            b = _outcome(eval_item((*item[:4], ((w2, "1" * len(item[2])),)))[0])
                            return None if (a == b or a == (None, None)) else [list(a), list(b)]
                        v_mono.add(len(text), f"{text}|{w}->{w2}",
                                   f"{text!r}: definite outcome {out} under {dict(zip(rc_keys, w))} but {table[w2]} "
                                   f"under its refinement {dict(zip(rc_keys, w2))}",
                                   {"expression": "Muss " + text, "rc": dict(zip(rc_keys, w)),
                                    "refinement": dict(zip(rc_keys, w2)), "outcome": list(out),
                                    "outcome_of_refinement": list(table[w2])},
                                   recheck, replay_snippet(text, rc_keys, fc_keys, hint_keys, w, "1" * len(fc_keys))
                                   + "\n# and the refinement:\n"
                                   + replay_snippet(text, rc_keys, fc_keys, hint_keys, w2, "1" * len(fc_keys)))
                if len(samples_mono) < 5 and len(mono_cases) % 499 == 1:
                    samples_mono.append({"expression": text, "rc": dict(zip(rc_keys, w)), "definite_outcome": list(out)})
            continue
        # ------------------------------------------------------------------------------------ a variant
        kind, descr, vtext = meta
        bres = base_res[bi]
        if any(r[0] != "ok" for r in bres):
            continue
        evals_meta += len(cases)
        b_item = base_items[bi]
        if (b_item[0], vtext) not in pairs:
            pairs.add((b_item[0], vtext))
            per_kind_count[kind] += len(cases)
        if len(samples_meta) < 5 and len(pairs) % 811 == 1:
            samples_meta.append({"base": b_item[0], "variant": vtext, "kind": kind})
        for (w, fcw), r, rb in zip(cases, res, bres):
            if _outcome(r) != _outcome(rb):
                def recheck(item=item, b_item=b_item, w=w, fcw=fcw):
                    a = _outcome(eval_item((*item[:4], ((w, fcw),)))[0])
                    b = _outcome(eval_item((*b_item[:4], ((w, "1" * len(b_item[2])),)))[0])
                    return None if a == b else {"variant": list(a), "base": list(b)}
                what = "became invalid" if r[0] == "invalid" else "raised" if r[0] == "exc" else "changed the outcome"
                v_meta.add(len(vtext), f"{b_item[0]}=>{vtext}|{w}|{fcw}",
                           f"{kind} ({descr}): {b_item[0]!r} -> {vtext!r} {what} under {dict(zip(rc_keys, w))}: "
                           f"base {_outcome(rb)}, variant {_outcome(r)}",
                           {"base": "Muss " + b_item[0], "variant": "Muss " + vtext, "transformation": kind,
                            "rc": dict(zip(rc_keys, w)), "fc_of_variant": dict(zip(fc_keys, fcw)),
                            "base_outcome": list(_outcome(rb)), "variant_outcome": list(_outcome(r))},
                           recheck, replay_snippet(vtext, rc_keys, fc_keys, hint_keys, w, fcw) + "\n# base:\n"
                           + replay_snippet(b_item[0], b_item[1], b_item[2], b_item[3], w, "1" * len(b_item[2])))
    v_meta.flush()
    v_mono.flush()
    if skipped:
        ctx.note(f"{name}: {skipped} structurally valid base expressions were not evaluable by the real code "
                 "(reported by C04/C06, skipped here)")
    secs = time.time() - t0
    n_cases_meta = sum(per_kind_count.values())
    ctx.bounded(name + "/metamorphic", evals_meta, n_cases_meta,
                "distinct (base text, variant text, requirement assignment) triples with variant text != base text; "
                f"per transformation: {per_kind_count}",
                samples_meta, exhaustive=exhaustive and per_kind is None,
                bound=bound + ("; every variant (all positions, hint keys 501,503 / format keys 901,903, both sides)"
                               if per_kind is None else f"; seeded sample of {per_kind} variant(s) per transformation "
                               "kind and base") + "; evaluations = runs of variants (base runs counted in the other part)",
                seconds=secs)
    ctx.bounded(name + "/unknown-monotone", evals_base, len(mono_cases),
                "distinct (expression text, assignment) pairs with >=1 UNKNOWN entry and a definite real outcome, "
                "each compared with all its refinements",
                samples_mono, exhaustive=exhaustive, bound=bound + " x all 3^k assignments", seconds=0.0)


def run(ctx, tier: str, seed: int) -> None:
    ts.self_check()
    ctx.trust("A-LARK-RESOLVE (grouping of the rendered text is the tree it was rendered from: C01)")
    rng = random.Random(seed)
    deadline = deadline_for(tier, time.time())
    leaves = ts.default_leaves()
    by_n = ts.enumerate_trees(3 if tier == "quick" else 4, leaves)
    valid = {n: [t for t in by_n[n] if ts.valid(t)] for n in range(1, len(by_n))}
    if tier == "quick":
        check_bases(ctx, "<=2-leaves", valid[1] + valid[2], None, rng, True,
                    "all valid in-domain base trees with <=2 leaves", deadline)
        three = list(valid[3])
        rng.shuffle(three)  # so that a prefix cut off by the time budget is a seeded sample
        check_bases(ctx, "3-leaves", three, 1, rng, True, "all valid in-domain base trees with 3 leaves", deadline,
                    chunk=3000)
    else:
        three = list(valid[3])
        rng.shuffle(three)
        check_bases(ctx, "<=3-leaves", valid[1] + valid[2] + three, None, rng, True,
                    "all valid in-domain base trees with <=3 leaves", deadline - 150.0)
        four = rng.sample(valid[4], min(15000, len(valid[4])))
        check_bases(ctx, "4-leaves", four, 1, rng, False, "seeded sample of 15000 valid in-domain base trees with 4 leaves",
                    deadline)
