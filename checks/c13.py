"""C13 - validation covers the AHB tree once, in order; parents dominate: proof + bounded API backstop."""
from checks.common import prove, prove_lemmas, run_bounded
from vlib.report import Ctx

LEVEL = "proof"
V = "ahbicht.validation.validation:"
FUNCS = [V + f for f in ("map_requirement_validation_values", "combine_requirements_of_different_levels",
                         "get_segment_level_requirement_validation_value", "validate_segment_group", "validate_segment",
                         "validate_deep_anwendungshandbuch", "validate_segment_level", "validate_data_element",
                         "validate_data_element_freetext")]
VALUEPOOL = V + "validate_data_element_valuepool"


def run(ctx: Ctx) -> None:
    ctx.explanation = (
        "every function of validation.py is proved equal to its spec function (specs/vspec.py, transcribed from the "
        "property statement and the two documented tables): result lists are compared in a free list algebra "
        "(order / exactly-once stay syntactic; z3 decides guards and elements), deeper levels enter only through the "
        "next level's contract (modular recursion = induction over the AHB depth); the own status of every node is "
        "map(indicator, outcome) combined with the parent's status; nothing below a forbidden node. Expression "
        "evaluation enters through ghost functions ev_* (contract of C04/C09). asyncio.gather keeps argument order "
        "(A-ASYNCIO). The bounded API-level backstop is reported separately.")
    ctx.trust("A-ASYNCIO", "A-MAUS", "ev_* = contract of parse + evaluate_ahb_expression_tree (C04/C09)")
    prove(ctx, FUNCS)
    prove_lemmas(ctx, "contracts.validation_lemmas", ["parents_dominate"])
    run_bounded(ctx, "C13")
