"""Spec functions of the four-valued condition logic, written from the property statement C03:
Kleene's strong three-valued logic on {FULFILLED, UNFULFILLED, UNKNOWN} with NEUTRAL as identity element of all three
operators.  Nothing here is derived from (or calls) the operators of the code under test: only the *members* of the
enum are imported and they are compared with `is`/`==` on identical members only."""
from __future__ import annotations

from ahbicht.models.condition_nodes import ConditionFulfilledValue as CFV

F, U, K, N = CFV.FULFILLED, CFV.UNFULFILLED, CFV.UNKNOWN, CFV.NEUTRAL
ALL4 = (F, U, K, N)
DEFINITE = (F, U)


def _same(a, b) -> bool:
    return a is b


def and4(a, b):
    if _same(b, N):
        return a
    if _same(a, N):
        return b
    if _same(a, U) or _same(b, U):
        return U
    if _same(a, K) or _same(b, K):
        return K
    return F


def or4(a, b):
    if _same(b, N):
        return a
    if _same(a, N):
        return b
    if _same(a, F) or _same(b, F):
        return F
    if _same(a, K) or _same(b, K):
        return K
    return U


def xor4(a, b):
    if _same(b, N):
        return a
    if _same(a, N):
        return b
    if _same(a, K) or _same(b, K):
        return K
    return F if not _same(a, b) else U


def refines(a, a2) -> bool:
    """information order: a ⊑ a2 iff a2 is a or a is UNKNOWN and a2 a definite state"""
    return _same(a, a2) or (_same(a, K) and (_same(a2, F) or _same(a2, U)))
