"""Contracts of the two parsing functions (C02 exceptional postcondition; the accepted language itself is decided by
the bounded stand-in, see DESIGN §4 C01/C02) and of the key extraction used by ConditionNodeBuilder (C18)."""
from pyvc.contracts import Raw, Str, contract
from pyvc.values import Opaque


def tree():
    return Raw(lambda ex, st, name: Opaque("inst:Tree"))


@contract("ahbicht.expressions.condition_expression_parser:parse_condition_expression_to_tree", prop=["C02"])
class ParseCondition:
    """for every str: returns a Tree or raises SyntaxError - nothing else (given A-LARK-PARSE)"""
    params = dict(condition_expression=Str())
    raises = {"SyntaxError": None}
    returns = tree()


@contract("ahbicht.expressions.ahb_expression_parser:parse_ahb_expression_to_single_requirement_indicator_expressions",
          prop=["C02"])
class ParseAhb:
    params = dict(ahb_expression=Str())
    raises = {"SyntaxError": None}
    returns = tree()
