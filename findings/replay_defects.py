"""Native replay of the eight genuine defects found at the pinned commit (see DESIGN.md §5).
Run with /verif/.venv/bin/python (or /venv/bin/python).  Prints one line per defect: DEFECT (property broken) or OK."""
import asyncio, sys
import inject
import ahbicht.content_evaluation  # noqa (import order: avoids a circular import)
from ahbicht.content_evaluation.evaluationdatatypes import EvaluatableData, EvaluatableDataProvider
from ahbicht.content_evaluation.evaluator_factory import create_content_evaluation_result_based_evaluators
from ahbicht.content_evaluation.token_logic_provider import SingletonTokenLogicProvider, TokenLogicProvider
from ahbicht.models.content_evaluation_result import ContentEvaluationResult, ContentEvaluationResultSchema
from ahbicht.models.condition_nodes import ConditionFulfilledValue as CFV, EvaluatedFormatConstraint
from efoli import EdifactFormat, EdifactFormatVersion

_cer = {"v": None}
def _provider():
    return EvaluatableData(body=ContentEvaluationResultSchema().dump(_cer["v"]),
                           edifact_format=EdifactFormat.UTILMD, edifact_format_version=EdifactFormatVersion.FV2210)
def setup():
    inject.clear()
    evs = create_content_evaluation_result_based_evaluators(EdifactFormat.UTILMD, EdifactFormatVersion.FV2210)
    def cfg(b):
        b.bind(TokenLogicProvider, SingletonTokenLogicProvider([*evs]))
        b.bind_to_provider(EvaluatableDataProvider, _provider)
    inject.configure(cfg)
def cer(rc=None, fc=None, hints=None, packages=None):
    return ContentEvaluationResult(hints=hints or {}, format_constraints=fc or {}, requirement_constraints=rc or {}, packages=packages or {})

results = {}
def case(name):
    def deco(f):
        try:
            ok, info = f()
        except BaseException as e:  # noqa
            ok, info = False, f"escaped {type(e).__module__}.{type(e).__name__}: {str(e)[:80]!r}"
        results[name] = ok
        print(("OK     " if ok else "DEFECT ") + name + "  " + info)
    return deco

setup()
from ahbicht.expressions.expression_resolver import parse_expression_including_unresolved_subexpressions as resolve
from ahbicht.expressions.ahb_expression_evaluation import evaluate_ahb_expression_tree

@case("C02 resolver('Muss [1') must raise SyntaxError only")
def _():
    try:
        asyncio.run(resolve("Muss [1"))
    except SyntaxError:
        return True, "SyntaxError"
    return False, "accepted"

@case("C09 lower-case prefix operator 'x[1]' evaluates to indicator X")
def _():
    _cer["v"] = cer(rc={"1": CFV.FULFILLED})
    r = asyncio.run(evaluate_ahb_expression_tree(asyncio.run(resolve("x[1]"))))
    return str(r.requirement_indicator) == "X", f"indicator={r.requirement_indicator!r}"

@case("C11 editing a returned tree does not change later parses")
def _():
    from ahbicht.expressions.condition_expression_parser import parse_condition_expression_to_tree as p
    from lark import Token
    t = p("[1] U [2]"); t.children[0].children[0] = Token("CONDITION_KEY", "777")
    t2 = p("[1] U [2]")
    return t2.children[0].children[0] == "1", f"second parse sees {t2.children[0].children[0]!r}"

from maus.models.edifact_components import (DataElementFreeText, DataElementValuePool, Segment, ValuePoolEntry)
from ahbicht.validation.validation import validate_segment
@case("C14 soll_is_required=False reaches free-text data elements")
def _():
    _cer["v"] = cer(rc={"2": CFV.FULFILLED})
    seg = Segment(discriminator="SEG", ahb_expression="Muss", section_name="s", data_elements=[
        DataElementFreeText(discriminator="DE", ahb_expression="Soll [2]", entered_input=None, data_element_id="1234")])
    r = asyncio.run(validate_segment(seg, None, False))
    st = str(r[1].validation_result.requirement_validation)
    return st == "IS_OPTIONAL_AND_EMPTY", st

@case("C17 value pool with nothing offered is reported forbidden")
def _():
    _cer["v"] = cer(rc={"3": CFV.UNFULFILLED})
    from ahbicht.validation.validation import validate_data_element_valuepool
    from ahbicht.models.validation_values import RequirementValidationValue as R
    de = DataElementValuePool(discriminator="DE", data_element_id="1234", entered_input=None, value_pool=[
        ValuePoolEntry(qualifier="A", meaning="a", ahb_expression="X[3]"), ValuePoolEntry(qualifier="B", meaning="b", ahb_expression="X[3]")])
    r = asyncio.run(validate_data_element_valuepool(de, R.IS_REQUIRED))
    st = str(r.validation_result.requirement_validation)
    return st.startswith("IS_FORBIDDEN"), st

@case("C19 result with undetermined (None) outcome round-trips through JSON")
def _():
    from ahbicht.models.evaluation_results import AhbExpressionEvaluationResultSchema
    _cer["v"] = cer(rc={"1": CFV.UNKNOWN})
    r = asyncio.run(evaluate_ahb_expression_tree(asyncio.run(resolve("Muss [1]"))))
    s = AhbExpressionEvaluationResultSchema()
    back = s.loads(s.dumps(r))
    return back == r, "equal" if back == r else "not equal"

from ahbicht.content_evaluation.german_strom_and_gas_tag import has_no_utc_offset, is_xtag_limit
@case("C20a 931 fulfilled for zero offset at noon")
def _():
    r = has_no_utc_offset("2022-01-01T12:00:00+00:00")
    return r.format_constraint_fulfilled is True, repr(r.format_constraint_fulfilled)

@case("C20b no string makes 931..935 raise (edge of datetime range)")
def _():
    for s in ("0001-01-01T00:00:00+05:00", "9999-12-31T23:59:59-05:00"):
        for f in (lambda x: is_xtag_limit(x, "Strom"), lambda x: is_xtag_limit(x, "Gas"), has_no_utc_offset):
            r = f(s)
            if r.format_constraint_fulfilled is not False or not r.error_message:
                return False, f"{s}: {r}"
    return True, "unfulfilled with message"

sys.exit(0 if all(results.values()) else 1)
