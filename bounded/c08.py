"""C08 (bounded stand-in, API level): format-constraint evaluation is Boolean and explains every failure.

For every expression over the format-constraint keys 901, 902, 903 with U/O/X and brackets within the bound and every
truth assignment to its keys, the REAL `format_constraint_evaluation(text)` (content-evaluation-result based FC
evaluator; every unfulfilled single constraint carries an error message, every fulfilled one carries none) must give
  format_constraints_fulfilled  is  the Boolean value of the expression (and/or/xor, precedence brackets > U > X > O),
  error_message is None         iff format_constraints_fulfilled;
`None` and `""` must give `(True, None)`.
Each tree is rendered twice: with brackets forcing exactly that tree, and with the minimal brackets the documented
precedence allows (runs of one operator flat: their grouping is unspecified but and/or/xor are associative, so the value
is the same for every grouping).  The oracle `bool_value` (specs.treesem) evaluates the tree directly.
"""
from __future__ import annotations

import random
import time
from typing import List

from bounded import common as bc
from bounded.c04 import Violations, cut_note, deadline_for, pmap_until
from specs import treesem as ts

KEYS = ("901", "902", "903")


async def _fc_item_async(item):
    from ahbicht.expressions.format_constraint_expression_evaluation import format_constraint_evaluation
    text, keys, words = item
    out = []
    for w in words:
        bc.set_cer(bc.make_cer(fc=ts.decode_truth(keys, w)))
        try:
            res = await format_constraint_evaluation(text)
        except Exception as err:  # noqa: BLE001
            out.append(("exc", f"{type(err).__name__}: {err}"[:300]))
            continue
        out.append(("ok", res.format_constraints_fulfilled, res.error_message))
    return out


def fc_item(item):
    """(text | None, keys, truth words) -> [("ok", fulfilled, error_message) | ("exc", msg)] from the real code"""
    return bc.run(_fc_item_async(item))


def _snippet(text, keys, word) -> str:
    fc = ", ".join(f'"{k}": {c == "1"}' for k, c in zip(keys, word))
    return ("from bounded.common import *\nconfigure_inject()\n"
            "from ahbicht.expressions.format_constraint_expression_evaluation import format_constraint_evaluation\n"
            f"set_cer(make_cer(fc={{{fc}}}))\nprint(run(format_constraint_evaluation({text!r})))")


def _judge(expected: bool, r):
    """None if the real result `r` is what the statement demands, else a description"""
    if r[0] != "ok":
        return f"raised {r[1]}"
    fulfilled, msg = r[1], r[2]
    if fulfilled is not expected:
        return f"format_constraints_fulfilled={fulfilled!r}, Boolean value is {expected}"
    if (msg is None) != expected:
        return (f"format_constraints_fulfilled={fulfilled!r} but error_message={msg!r} "
                f"(a message must be present iff unfulfilled)")
    if msg is not None and not isinstance(msg, str):
        return f"error_message is not a string: {msg!r}"
    return None


def check_trees(ctx, name: str, trees: List[ts.Tree], seen_texts: set, exhaustive: bool, bound: str,
                deadline: float) -> None:
    t0 = time.time()
    bc.configure_inject()
    items, owners = [], []
    for t in trees:
        keys = tuple(ts.keys_of(t, ts.FC))
        words = tuple(ts.encode_truth(keys, a) for a in ts.assignments(keys, (True, False)))
        for style in ("forced", "minimal"):
            text = ts.render(t, style=style)
            if text in seen_texts:
                continue
            seen_texts.add(text)
            items.append((text, keys, words))
            owners.append(t)
    results = pmap_until(fc_item, items, deadline, chunk=5000)
    exhaustive, bound = exhaustive and len(results) == len(items), bound + cut_note(len(results), len(items))
    viol = Violations(ctx, name)
    evaluations, distinct, samples, unfulfilled = 0, 0, [], 0  # item texts are pairwise distinct (seen_texts)
    for t, item, res in zip(owners, items, results):
        text, keys, words = item
        evaluations += len(words)
        if ts.n_ops(t) >= 1:
            distinct += len(set(words))
        for w, r in zip(words, res):
            truth = ts.decode_truth(keys, w)
            expected = ts.bool_value(t, truth)
            unfulfilled += 0 if expected else 1
            if len(samples) < 5 and ts.n_ops(t) >= 2 and evaluations % 1009 < 8 and not expected and r[0] == "ok":
                samples.append({"expression": text, "truth": truth, "fulfilled": r[1], "error_message": r[2]})
            problem = _judge(expected, r)
            if problem:
                def recheck(item=item, w=w, expected=expected):
                    r2 = fc_item((item[0], item[1], (w,)))[0]
                    return None if _judge(expected, r2) is None else list(r2)

                def history(item=item, w=w, expected=expected):
                    for w2, r2 in zip(item[2], fc_item(item)):
                        if w2 == w:
                            return None if _judge(expected, r2) is None else list(r2)
                    return None
                viol.add(len(text), f"{text}|{w}", f"{text!r} under {truth}: {problem}",
                         {"format_constraints_expression": text, "fc": truth, "expected_fulfilled": expected,
                          "observed": list(r)}, recheck, _snippet(text, keys, w), history=history)
    viol.flush()
    ctx.bounded(name, evaluations, distinct,
                "distinct (expression text, truth assignment) pairs whose expression has at least one operator "
                f"({unfulfilled} of the cases are unfulfilled, i.e. exercise the message clause)",
                samples, exhaustive=exhaustive, bound=bound + " x all 2^k truth assignments; two bracketings per tree",
                seconds=time.time() - t0)


def check_absent(ctx) -> None:
    t0 = time.time()
    bc.configure_inject()
    viol = Violations(ctx, "absent-or-empty")
    cases = [(None, KEYS, ("111", "000", "010")), ("", KEYS, ("111", "000", "010"))]
    n = 0
    for item in cases:
        for w, r in zip(item[2], fc_item(item)):
            n += 1
            if not (r[0] == "ok" and r[1] is True and r[2] is None):
                def recheck(item=item, w=w):
                    r2 = fc_item((item[0], item[1], (w,)))[0]
                    return None if (r2[0] == "ok" and r2[1] is True and r2[2] is None) else list(r2)
                viol.add(0, f"{item[0]!r}|{w}", f"format_constraint_evaluation({item[0]!r}) gave {r}, expected (True, None)",
                         {"format_constraints_expression": item[0], "observed": list(r)}, recheck,
                         _snippet(item[0], item[1], w))
    viol.flush()
    ctx.bounded("absent-or-empty", n, 2, "the two distinct absent/empty expressions (None and '')",
                [{"expression": None}, {"expression": ""}], exhaustive=True,
                bound="None and '' under three truth assignments", seconds=time.time() - t0)


def run(ctx, tier: str, seed: int) -> None:
    ts.self_check()
    ctx.trust("A-LARK-RESOLVE (precedence grouping of the parser: C01)")
    ctx.assume("proviso of the statement: every unfulfilled single constraint carries an error message and every "
               "fulfilled one carries none (what bounded.common.make_cer builds and every shipped evaluator produces)")
    rng = random.Random(seed)
    deadline = deadline_for(tier, time.time())
    leaves = [ts.Leaf(ts.FC, k) for k in KEYS]
    max_n = 4 if tier == "quick" else 5
    by_n = ts.enumerate_trees(max_n, leaves, ops=ts.BOOL_OPS, domain_only=False)
    seen: set = set()
    check_absent(ctx)
    small = [t for n in range(1, 4) for t in by_n[n]]
    four = list(by_n[4])
    rng.shuffle(four)  # so that a prefix cut off by the time budget is a seeded sample
    check_trees(ctx, "boolean-and-message/<=4-leaves", small + four, seen, True,
                "all trees with <=4 leaves over keys 901,902,903 and operators U/O/X", deadline)
    if tier != "quick":
        n = 60000
        five = rng.sample(by_n[5], min(n, len(by_n[5])))
        check_trees(ctx, "boolean-and-message/5-leaves", five, seen, len(five) == len(by_n[5]),
                    f"seeded sample of {len(five)} of {len(by_n[5])} trees with 5 leaves over keys 901,902,903 and "
                    "operators U/O/X", deadline)
