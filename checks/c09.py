"""C09 - AHB expressions split into their parts; the first fulfilled part decides: hybrid.
P: selection loop, bare indicator, per-part plumbing, VisitError unwrapping (z3).  X: indicator token callbacks on their
complete finite languages.  B: splitting against a reference splitter + end-to-end selection (bounded)."""
import itertools
import time

from checks.common import prove, run_bounded
from vlib.report import Ctx

LEVEL = "other"
A = "ahbicht.expressions.ahb_expression_evaluation:"
AT = A + "AhbExpressionTransformer."
TARGETS = [AT + "_ahb_expression_async", AT + "requirement_indicator", AT + "_single_requirement_indicator_expression_async",
           A + "evaluate_ahb_expression_tree"]


def case_variants(word: str):
    for bits in itertools.product([0, 1], repeat=len(word)):
        yield "".join(c.upper() if b else c.lower() for c, b in zip(word, bits))


def token_callbacks(ctx: Ctx) -> None:
    """complete enumeration of the real token callbacks on every spelling the grammar admits"""
    from lark import Token

    from ahbicht.expressions.ahb_expression_evaluation import AhbExpressionTransformer
    from ahbicht.models.enums import ModalMark, PrefixOperator
    t0 = time.time()
    tr = AhbExpressionTransformer()
    expect = {"m": ModalMark.MUSS, "muss": ModalMark.MUSS, "s": ModalMark.SOLL, "soll": ModalMark.SOLL,
              "k": ModalMark.KANN, "kann": ModalMark.KANN}
    n, bad = 0, []
    seen = set()
    for word, want in expect.items():
        for v in case_variants(word):
            if v in seen:
                continue
            seen.add(v)
            n += 1
            try:
                got = tr.MODAL_MARK(Token("MODAL_MARK", v))
            except Exception as e:  # noqa
                got = f"raises {type(e).__name__}: {e}"
            if got is not want:
                bad.append({"token": "MODAL_MARK", "spelling": v, "got": str(got), "expected": str(want)})
    for word, want in {"x": PrefixOperator.X, "o": PrefixOperator.O, "u": PrefixOperator.U}.items():
        for v in case_variants(word):
            n += 1
            try:
                got = tr.PREFIX_OPERATOR(Token("PREFIX_OPERATOR", v))
            except Exception as e:  # noqa
                got = f"raises {type(e).__name__}: {e}"
            if got is not want:
                bad.append({"token": "PREFIX_OPERATOR", "spelling": v, "got": str(got), "expected": str(want)})
    status = "exhaustive" if not bad else "violated"
    ctx.obligation("AhbExpressionTransformer.MODAL_MARK+PREFIX_OPERATOR/all-spellings", status,
                   backend="complete enumeration under CPython", seconds=time.time() - t0,
                   detail=f"{n} spellings (54 modal-mark + 6 prefix-operator case variants)")
    ctx.bounded("C09/token-callbacks-all-spellings", n, n,
                "every letter-case variant of m/muss/s/soll/k/kann and x/o/u through the real token callbacks; each "
                "spelling is a distinct case", [{"spelling": "mUsS", "normalised": "MUSS"}], exhaustive=True,
                bound="complete: the finite language of the two terminals", seconds=time.time() - t0)
    for b in bad[:5]:
        ctx.violation("AhbExpressionTransformer." + b["token"] + "/all-spellings",
                      f"indicator spelling {b['spelling']!r} is normalised to {b['got']} instead of {b['expected']}",
                      witness=b, replayed=True, signature=f"{b['token']}:{b['spelling']}",
                      replay_code=f"AhbExpressionTransformer().{b['token']}(Token('{b['token']}', '{b['spelling']}'))")


def ahb_rule_table(ctx: Ctx) -> None:
    """ground obligation on the rule table Lark built from the REAL AHB grammar string: the documented shape
    `(modal_mark condition)+ [indicator] | prefix_operator condition | indicator`, every part under the alias
    `single_requirement_indicator_expression` (a sufficient-condition obligation: undecided when it fails)"""
    import ahbicht.content_evaluation  # noqa: F401
    from ahbicht.expressions import ahb_expression_parser as ahbp
    t0 = time.time()
    p = getattr(ahbp, "_parser", None)
    if p is None or not hasattr(p, "rules"):
        ctx.obligation("grammar/ahb-rule-table", "undecided", backend="ground check on the live Lark rule table",
                       detail="the module-level Lark parser `_parser` was not found in this tree")
        return
    plus = [r.origin.name for r in p.rules if r.origin.name.startswith("__")]
    ren = {n: "PLUS" for n in set(plus)}
    got = sorted((ren.get(r.origin.name, r.origin.name), tuple(ren.get(s.name, s.name) for s in r.expansion), r.alias)
                 for r in p.rules)
    want = sorted([
        ("ahb_expression", ("PLUS",), None), ("ahb_expression", ("prefix_operator_expression",), None),
        ("ahb_expression", ("requirement_indicator",), None), ("ahb_expression", ("PLUS", "requirement_indicator"), None),
        ("modal_mark_expression", ("MODAL_MARK", "CONDITION_EXPRESSION"), "single_requirement_indicator_expression"),
        ("prefix_operator_expression", ("PREFIX_OPERATOR", "CONDITION_EXPRESSION"), "single_requirement_indicator_expression"),
        ("requirement_indicator", ("PREFIX_OPERATOR",), None), ("requirement_indicator", ("MODAL_MARK",), None),
        ("PLUS", ("modal_mark_expression",), None), ("PLUS", ("PLUS", "modal_mark_expression"), None)],
        key=lambda x: (x[0], x[1], x[2] or ""))
    got = sorted(got, key=lambda x: (x[0], x[1], x[2] or ""))
    ok = got == want
    ctx.obligation("grammar/ahb-rule-table-is-the-documented-shape", "discharged" if ok else "undecided",
                   backend="ground check on the live Lark rule table", seconds=time.time() - t0,
                   detail=None if ok else f"rules: {got}")


def run(ctx: Ctx) -> None:
    ctx.explanation = (
        "PROVED (z3): _ahb_expression_async returns the first part whose requirement outcome is True, else the last "
        "(generic-iteration rule with the fact that earlier iterations completed), sets the conditional flag exactly "
        "for a fulfilled part of a multi-part expression and leaves every other reported field the part's own; a bare "
        "indicator is fulfilled/unconditional; a single part's result consists of the indicator passed in, the "
        "requirement evaluation of its own condition expression and the format evaluation of its own format-constraint "
        "expression; lark's VisitError never escapes evaluate_ahb_expression_tree. EXHAUSTIVE: both indicator token "
        "callbacks on all 60 spellings. BOUNDED: splitting by the Lark grammar against a reference splitter, and the "
        "end-to-end selection.")
    ctx.trust("A-LARK-FOLD", "A-ASYNCIO", "splitting = Lark (bounded only)",
              "gather_if_necessary returns the items in input order (its own contract: C12)")
    prove(ctx, TARGETS)
    token_callbacks(ctx)
    # token languages of the grammar, decided over all of Unicode (sufficient-condition obligations, see checks/tokenlang.py)
    from checks import tokenlang
    tokenlang.obligations(ctx, grammars=("ahb",))
    ahb_rule_table(ctx)
    run_bounded(ctx, "C09")
