"""C16 (bounded stand-in, API-level backstop) — an invalid expression makes one node optional and never aborts.

For every enumerated tree and every (quick: enumerated for the chains, sampled for random trees) subset of nodes —
groups, segments, free-text elements, value-pool entries — that carries a well-formed but invalid expression:
  (a) the REAL validate_deep_anwendungshandbuch does not raise (except the documented NotImplementedError, and then
      exactly when the 'Kann' variant raises it too);
  (b) every reported faulty group/segment is IS_OPTIONAL, every reported faulty free text is optional
      (IS_OPTIONAL[_AND_FILLED|_AND_EMPTY matching its input]); the hint is the reason given by the evaluation
      (InvalidExpressionError.error_message, obtained from the real evaluation of the same expression);
      a faulty value-pool entry is selectable (its qualifier is among the possible values of its reported element);
  (c) the result of every OTHER node is identical (status, hints, format result, possible values) to the REAL result
      for the AHB in which each invalid expression is replaced by 'Kann', and the same nodes are reported in the
      same order.
"""
from __future__ import annotations

import copy
import itertools
import random
from typing import Dict, List

from bounded import ahbgen as G
from specs import validation_spec as S

MODULE = "bounded.c16"


def check_case(case: dict) -> dict:
    """case: {"lines": plan with valid expressions, "faults": {slot index (str): invalid expression},
              "cer": int, "soll": bool}"""
    base, cer, soll = case["lines"], case["cer"], case["soll"]
    faults = {int(k): v for k, v in case["faults"].items()}
    faulty = G.map_slots(base, lambda i, k, e: faults.get(i, e))
    kann = G.map_slots(base, lambda i, k, e: "Kann" if i in faults else e)
    slot_list = G.slots(faulty)
    ev = G.evaluator(cer)
    reasons: Dict[int, str] = {}
    for i in faults:
        r = ev(slot_list[i][3])
        assert isinstance(r, S.Invalid), f"generator error: {slot_list[i][3]!r} is not invalid"
        reasons[i] = r.reason
    how_f, res_f = G.call_real("validate_deep_anwendungshandbuch", cer, copy.deepcopy(G.build_ahb(faulty)), soll)
    how_k, res_k = G.call_real("validate_deep_anwendungshandbuch", cer, copy.deepcopy(G.build_ahb(kann)), soll)
    out = {"verdict": "ok", "message": "", "runs": 2, "raised": False, "nontrivial": False}

    def bad(kind, message, expected=None, observed=None):
        out.update(verdict="mismatch", kind=kind, message=message, expected=expected, observed=observed)
        return out

    if how_k == "raised":
        out["raised"] = True
        if not res_k.startswith("NotImplementedError"):
            raise RuntimeError(f"reference run ('Kann' variant) raised {res_k} for {case!r}")  # checker problem
        if how_f == "raised" and res_f.startswith("NotImplementedError"):
            return out                                             # the same documented abort in both
        return bad("abort-differs", f"'Kann' variant ends in NotImplementedError, faulty AHB gives "
                   f"{res_f if how_f == 'raised' else 'a result list'}", expected=res_k,
                   observed=res_f if how_f == "raised" else G.plain(res_f))
    if how_f == "raised":
        return bad("aborted", f"validation aborted with {res_f} although only {len(faults)} node(s) carry an invalid "
                   f"expression", expected=G.plain(res_k), observed=res_f)
    pf, pk = G.plain(res_f), G.plain(res_k)
    df, dk = [x["discriminator"] for x in pf], [x["discriminator"] for x in pk]
    if df != dk:
        return bad("reported-nodes-differ", f"reported nodes differ from the 'Kann' variant: {df} vs {dk}",
                   expected=dk, observed=df)
    by_disc = {x["discriminator"]: x for x in pf}
    faulty_nodes = {}          # discriminator of a node whose own expression is invalid -> (kind, slot)
    entry_faults: Dict[str, List[str]] = {}
    for i in faults:
        kind, disc, qual, _ = slot_list[i]
        if kind == "E":
            entry_faults.setdefault(disc, []).append(qual)
        else:
            faulty_nodes[disc] = (kind, i)
    inputs = {d: inp for d, inp in _freetext_inputs(faulty)}
    # (b) the faulty nodes themselves
    for disc, (kind, i) in faulty_nodes.items():
        if disc not in by_disc:
            continue                                               # below a forbidden node: not visited at all
        x = by_disc[disc]
        allowed = [S.IS_OPTIONAL] if kind in "GS" else [S.IS_OPTIONAL, S.suffix(S.IS_OPTIONAL, inputs[disc])]
        if x["status"] not in allowed:
            return bad("faulty-node-not-optional", f"{disc} carries an invalid expression and is reported "
                       f"{x['status']}, expected optional", expected=allowed, observed=x["status"])
        if x["hints"] != reasons[i]:
            return bad("faulty-node-hint", f"hint of {disc} is {str(x['hints'])[:80]!r}, expected the reason "
                       f"{reasons[i][:80]!r}", expected=reasons[i], observed=x["hints"])
    for disc, quals in entry_faults.items():
        if disc not in by_disc:
            continue
        for q in quals:
            if q not in (by_disc[disc]["possible_values"] or []):
                return bad("faulty-entry-not-selectable", f"value-pool entry {q} of {disc} carries an invalid "
                           f"expression but is not offered: {by_disc[disc]['possible_values']}",
                           expected=f"{q} offered", observed=by_disc[disc]["possible_values"])
    # (c) every other node: identical to the 'Kann' variant
    for x, y in zip(pf, pk):
        if x["discriminator"] in faulty_nodes:
            continue
        if x != y:
            keys = [k for k in x if x.get(k) != y.get(k)]
            return bad("other-node-differs", f"{x['discriminator']} (not carrying a fault itself) differs from the "
                       f"'Kann' variant in {keys}: {x.get(keys[0])!r} vs {y.get(keys[0])!r}", expected=y, observed=x)
    visited_fault = any(d in by_disc for d in faulty_nodes) or any(d in by_disc for d in entry_faults)
    out["nontrivial"] = G.levels(base) >= 2 and visited_fault and len(pf) >= 2
    return out


def _freetext_inputs(lines):
    out = []

    def seg(p, disc):
        for i, d in enumerate(p[2]):
            if d[0] == "F":
                out.append((f"{disc}.D{i}", d[2]))

    def grp(p, disc):
        for i, g in enumerate(p[2]):
            grp(g, f"{disc}.G{i}")
        for i, s in enumerate(p[3]):
            seg(s, f"{disc}.S{i}")

    for i, g in enumerate(lines):
        grp(g, f"G{i}")
    return out


# ------------------------------------------------------------------------------------------------ spaces
def _subsets(n: int):
    for k in range(1, n + 1):
        yield from itertools.combinations(range(n), k)


def chain_cases(pool, cers, invalids) -> List[dict]:
    """group > segment > [free text, pool of 2]: 5 slots; every non-empty subset of the slots is faulted"""
    out = []
    n = 0
    for e1, e2, e3 in itertools.product(pool, repeat=3):
        base = [G.group(e1, segments=[G.segment(e2, [G.freetext(e3, G.FREETEXT_INPUTS[n % 3]),
                                                      G.valuepool(["X [1]", "X [2]"], [None, "A", "B"][n % 3])])])]
        for sub in _subsets(5):
            n += 1
            faults = {str(i): invalids[(n + i) % len(invalids)] for i in sub}
            out.append({"lines": base, "faults": faults, "cer": cers[n % len(cers)], "soll": n % 2 == 0})
    return out


def chain_groups(pool, cers, invalids) -> List[dict]:
    """group > sub-group > segment plus a sibling segment: 4 slots, every non-empty subset, all cers and flags"""
    out = []
    n = 0
    for e1, e2, e3, e4 in itertools.product(pool, repeat=4):
        base = [G.group(e1, groups=[G.group(e2, segments=[G.segment(e3)])], segments=[G.segment(e4)])]
        for sub in _subsets(4):
            n += 1
            faults = {str(i): invalids[(n + i) % len(invalids)] for i in sub}
            out.append({"lines": base, "faults": faults, "cer": cers[n % len(cers)], "soll": n % 2 == 0})
    return out


def sampled(rng: random.Random, n: int, depth: int, pool, entry_pool, cers, invalids) -> List[dict]:
    out = []
    while len(out) < n:
        base = G.random_lines(rng, depth, 2, pool, entry_pool, max_pool=3, max_lines=2)
        k = G.slot_count(base)
        p = rng.choice([0.15, 0.3, 0.6])
        chosen = [i for i in range(k) if rng.random() < p] or [rng.randrange(k)]
        out.append({"lines": base, "faults": {str(i): rng.choice(invalids) for i in chosen},
                    "cer": rng.choice(cers), "soll": rng.random() < 0.5})
    return out


RULE = ("distinct (tree, fault subset, content evaluation result, flag) whose tree has >= 2 levels, in which at least "
        "one faulty node (or the element of a faulty pool entry) is actually visited and >= 2 nodes are reported "
        "(evaluations = real validation runs: faulty AHB and 'Kann' variant)")


def run(ctx, tier: str, seed: int) -> None:
    rng = random.Random(seed)
    thorough = tier == "thorough"
    cers = [0, 1, 2, 4, 5] if thorough else [0, 1, 2]
    invalids = G.INVALID_EXPRESSIONS
    valid = G.POOL_C16_VALID if thorough else G.POOL_C16_VALID[:7]
    entry_valid = ["X", "X [1]", "X [2]", "X [3]"]
    G.warm_cache(invalids, cers)
    ctx.trust("A-EVAL the reason of an invalid expression is taken from the real evaluation "
              "(InvalidExpressionError.error_message); evaluation itself is the subject of C06")
    G.run_cases(ctx, "chain-all-fault-subsets", chain_cases(valid, cers, invalids), check_case, MODULE, RULE,
                exhaustive=False,
                bound=f"group > segment > [free text, pool of 2]; every base expression triple from {len(valid)} valid "
                      f"expressions x every non-empty subset of the 5 expression slots faulted ({len(invalids)} invalid expressions, "
                      f"rotated); content evaluation result ({len(cers)}) and flag rotated, not crossed")
    small = valid[:5] if not thorough else valid[:7]
    G.run_cases(ctx, "groups-all-fault-subsets", chain_groups(small, cers, invalids), check_case, MODULE, RULE,
                exhaustive=False,
                bound=f"group > [sub-group > segment, segment]; every base expression quadruple from {len(small)} "
                      f"valid expressions x every non-empty subset of the 4 slots faulted; cer/flag rotated")
    depth, n = (3, 80_000) if thorough else (2, 8_000)
    G.run_cases(ctx, f"sampled-trees-depth{depth}", sampled(rng, n, depth, G.POOL_C16_VALID, entry_valid, cers,
                                                              invalids), check_case, MODULE, RULE, exhaustive=False,
                bound=f"{n} seeded random trees (1-2 root groups, <= {depth} nested group levels, <= 2 children of each "
                      f"kind, pools <= 3 entries) with a random non-empty fault subset (each slot with p = .15/.3/.6), "
                      f"{len(cers)} content evaluation results, both flags")
    from bounded import valhist
    valhist.run_histories(ctx, tier, seed + 16, list(G.POOL_C16_VALID[:6]) + list(invalids), entry_valid + list(invalids[:1]), cers)
