"""C13 (bounded stand-in, API-level backstop) — validation covers the AHB tree once, in document order; parents
dominate children.

Real entry points: validate_deep_anwendungshandbuch(ahb, soll) and validate_segment_level(node, soll).
Oracle: specs.validation_spec.deep / segment_level (written from the property statement).  The oracle's expression
callback is the REAL expression evaluation (subject of C03–C10); judged here is the validation plumbing: which nodes
are reported, in which order, how often, what is pruned, own status × parent status, FILLED/EMPTY suffix, and the
documented NotImplementedError for a visited MUSS/X/O/U node with an undetermined outcome.
"""
from __future__ import annotations

import copy
import itertools
import random
from typing import Any, Dict, List

from bounded import ahbgen as G
from specs import validation_spec as S

MODULE = "bounded.c13"


# ------------------------------------------------------------------------------------------------ one case
def _first_segment(group_obj):
    if group_obj.segments:
        return group_obj.segments[0]
    for g in group_obj.segment_groups or []:
        s = _first_segment(g)
        if s is not None:
            return s
    return None


def compare(expected: List[S.Entry], observed: List[Dict[str, Any]]) -> str:
    """'' if the observed result list satisfies the statement, else a description of the first disagreement"""
    exp_d = [e.discriminator for e in expected]
    obs_d = [o["discriminator"] for o in observed]
    if len(set(obs_d)) != len(obs_d):
        dup = sorted({d for d in obs_d if obs_d.count(d) > 1})
        return f"reported more than once: {dup}"
    if exp_d != obs_d:
        if sorted(exp_d) == sorted(obs_d):
            return f"order differs: expected {exp_d}, observed {obs_d}"
        extra = [d for d in obs_d if d not in exp_d]
        missing = [d for d in exp_d if d not in obs_d]
        return f"reported nodes differ: unexpected {extra}, missing {missing}"
    for e, o in zip(expected, observed):
        if not S.status_agrees(e, o["status"]):
            return f"status of {e.discriminator}: expected {e.status} ({e.extras['kind']}), observed {o['status']}"
    return ""


def check_case(case: dict) -> dict:
    """case: {"lines": plan, "cer": int, "soll": bool, "entry": "deep" | "level_group" | "level_segment"}"""
    lines, cer, soll, entry = case["lines"], case["cer"], case["soll"], case["entry"]
    ahb = G.build_ahb(lines)
    ev = G.evaluator(cer)
    if entry == "deep":
        subject, fn = ahb, "validate_deep_anwendungshandbuch"
        oracle = lambda: S.deep(ahb, ev, soll)  # noqa: E731
    else:
        subject = ahb.lines[0] if entry == "level_group" else _first_segment(ahb.lines[0])
        if subject is None:
            subject = ahb.lines[0]
        fn = "validate_segment_level"
        oracle = lambda: S.segment_level(subject, ev, soll)  # noqa: E731
    total = S.count_nodes(subject)
    try:
        expected = oracle()
        exp_repr: Any = [[e.discriminator, e.status] for e in expected]
    except S.Undetermined:
        expected, exp_repr = None, "NotImplementedError"
    how, res = G.call_real(fn, cer, copy.deepcopy(subject), soll)
    out = {"verdict": "ok", "message": "", "runs": 1, "raised": expected is None, "nontrivial": False}
    if expected is None:
        if not (how == "raised" and res.startswith("NotImplementedError")):
            obs = res if how == "raised" else [[o["discriminator"], o["status"]] for o in G.plain(res)]
            out.update(verdict="mismatch", kind="undetermined-not-raised", expected=exp_repr, observed=obs,
                       message="a visited MUSS/X/O/U node has an undetermined outcome: NotImplementedError "
                               f"expected, observed {str(obs)[:200]}")
        return out
    if how == "raised":
        out.update(verdict="mismatch", kind="raised", expected=exp_repr, observed=res,
                   message=f"validation raised {res}; expected result {str(exp_repr)[:300]}")
        return out
    observed = G.plain(res)
    msg = compare(expected, observed)
    if msg:
        out.update(verdict="mismatch", kind=msg.split(":")[0].split(" of ")[0], expected=exp_repr,
                   observed=[[o["discriminator"], o["status"]] for o in observed], message=msg)
    pruned = total - len(expected)
    out["nontrivial"] = G.levels(lines) >= 2 and (len(expected) >= 2 or pruned >= 1)
    return out


# ------------------------------------------------------------------------------------------------ spaces
def chain_gsf(pool, cers, inputs) -> List[dict]:
    out = []
    for e1, e2, e3 in itertools.product(pool, repeat=3):
        for inp in inputs:
            lines = [G.group(e1, segments=[G.segment(e2, [G.freetext(e3, inp)])])]
            for c in cers:
                for soll in (True, False):
                    out.append({"lines": lines, "cer": c, "soll": soll, "entry": "deep"})
    return out


def chain_ggs(pool, cers) -> List[dict]:
    out = []
    for n, (e1, e2, e3) in enumerate(itertools.product(pool, repeat=3)):
        lines = [G.group(e1, groups=[G.group(e2, segments=[G.segment(e3)])])]
        for c in cers:
            for soll in (True, False):
                out.append({"lines": lines, "cer": c, "soll": soll, "entry": "deep" if n % 2 == 0 else "level_group"})
    return out


def chain_ggsf(pool, cers) -> List[dict]:
    out = []
    for e1, e2, e3, e4 in itertools.product(pool, repeat=4):
        lines = [G.group(e1, groups=[G.group(e2, segments=[G.segment(e3, [G.freetext(e4, "abc")])])])]
        for c in cers:
            for soll in (True, False):
                out.append({"lines": lines, "cer": c, "soll": soll, "entry": "deep"})
    return out


BENIGN = ["Muss", "Kann", "Soll", "X", "Muss [501]", "Muss [1] O [501]", "k"]   # never forbid anything


def all_shapes(rng: random.Random, fills: int, pool, cers) -> List[dict]:
    """every tree SHAPE with one root group, <= 2 nested group levels, <= 2 sub-groups and <= 2 segments per group,
    <= 1 data element (free text or single-entry pool) per segment — 2379 shapes — each filled `fills` times with
    random expressions (alternately from a pool that never forbids, so that the complete order is visible, and from
    the full pool)"""
    out = []
    for shape in G.group_shapes(2, 2, 2, 1, 1):
        k = G.slot_count([shape])
        for f in range(fills):
            p = BENIGN if f % 2 == 0 else pool
            lines = G.fill([shape], [rng.choice(p) for _ in range(k)],
                           freetext_inputs=[rng.choice(G.FREETEXT_INPUTS) for _ in range(k)],
                           pool_inputs=[rng.choice([None, "", "A", G.FOREIGN_VALUE]) for _ in range(k)])
            out.append({"lines": lines, "cer": rng.choice(cers), "soll": rng.random() < 0.5,
                        "entry": "deep" if rng.random() < 0.8 else "level_group"})
    return out


def sampled(rng: random.Random, n: int, depth: int, branching: int, pool, entry_pool, cers, max_pool: int
            ) -> List[dict]:
    out = []
    for _ in range(n):
        lines = G.random_lines(rng, depth, branching, pool, entry_pool, max_pool=max_pool, max_lines=2)
        r = rng.random()
        entry = "deep" if r < 0.7 else ("level_group" if r < 0.85 else "level_segment")
        out.append({"lines": lines, "cer": rng.choice(cers), "soll": rng.random() < 0.5, "entry": entry})
    return out


RULE = ("distinct (tree, content evaluation result, soll flag, entry point) whose tree has >= 2 levels and whose "
        "run reports >= 2 nodes or prunes >= 1 node below a forbidden node (runs ending in NotImplementedError are "
        "checked but not counted)")


def run(ctx, tier: str, seed: int) -> None:
    rng = random.Random(seed)
    thorough = tier == "thorough"
    cers = [0, 1, 2, 4, 5] if thorough else [0, 1, 2]
    pool_small = G.POOL_C13 if thorough else G.POOL_C13_SMALL
    entry_pool = G.POOL_ENTRY_THOROUGH if thorough else G.POOL_ENTRY
    G.warm_cache(G.POOL_C13 + entry_pool, cers)
    ctx.assume("C13 judges discriminators, order, exactly-once, pruning and statuses (incl. FILLED/EMPTY suffix); for "
               "value-pool elements only FORBIDDEN-ness and the suffix (C17), for a free text with an INVALID "
               "expression only 'optional' (C16; the statement's suffix clause speaks about valid expressions)")
    ctx.trust("A-EVAL expression evaluation (bounded.common.evaluate on the real code) is the oracle's callback; "
              "its correctness is the subject of C03-C10")

    G.run_cases(ctx, "chain-group-segment-freetext", chain_gsf(pool_small, cers, G.FREETEXT_INPUTS), check_case,
                MODULE, RULE, exhaustive=True,
                bound=f"group > segment > free text; every expression triple from a pool of {len(pool_small)} "
                      f"(valid, invalid, SOLL, multi modal mark, UNKNOWN-yielding, hint, format constraint) x inputs "
                      f"None/''/'abc' x {len(cers)} content evaluation results x both flags")
    G.run_cases(ctx, "chain-group-group-segment", chain_ggs(pool_small, cers), check_case, MODULE, RULE,
                exhaustive=True,
                bound=f"group > sub-group > segment; every expression triple from a pool of {len(pool_small)} x "
                      f"{len(cers)} content evaluation results x both flags; deep and validate_segment_level")
    if thorough:
        G.run_cases(ctx, "chain-group-group-segment-freetext", chain_ggsf(G.POOL_C13_SMALL, [0, 1, 2]), check_case,
                    MODULE, RULE, exhaustive=True,
                    bound="group > sub-group > segment > free text; every expression quadruple from a pool of "
                          f"{len(G.POOL_C13_SMALL)} x 3 content evaluation results x both flags")
    fills = 10 if thorough else 2
    G.run_cases(ctx, "all-shapes-depth2", all_shapes(rng, fills, G.POOL_C13, cers), check_case, MODULE, RULE,
                exhaustive=False,
                bound=f"all 2379 tree shapes with one root group, <= 2 nested group levels, <= 2 sub-groups and <= 2 "
                      f"segments per group, <= 1 data element per segment; {fills} seeded random fills each "
                      f"(expressions, inputs, content evaluation result, flag) - shapes exhaustive, fills sampled")
    depth, n = (3, 200_000) if thorough else (2, 16_000)
    G.run_cases(ctx, f"sampled-trees-depth{depth}",
                sampled(rng, n, depth, 2, G.POOL_C13, entry_pool, cers, max_pool=3), check_case, MODULE, RULE,
                exhaustive=False,
                bound=f"{n} seeded random trees: 1-2 root groups, <= {depth} nested group levels, <= 2 sub-groups / "
                      f"segments / data elements per node, value pools of <= 3 entries, expressions from a pool of "
                      f"{len(G.POOL_C13)}, entered inputs absent/empty/offered/not offered/foreign, "
                      f"{len(cers)} content evaluation results, both flags, deep + validate_segment_level")
    from bounded import valhist
    valhist.run_histories(ctx, tier, seed, G.POOL_C13, entry_pool, cers)
