#!/bin/bash
# Builds /verif/.venv offline: a Python 3.12 venv layered over /venv (the repository's interpreter and deps)
# plus z3-solver / deal / icontract / crosshair-tool from the offline wheelhouse.  Idempotent.
set -euo pipefail
cd "$(dirname "$0")"
V=.venv
STAMP=$V/.stamp-v1
if [ -f "$STAMP" ] && "$V/bin/python" -c "import z3, deal, lark, ahbicht" >/dev/null 2>&1; then
  echo "setup: $V already usable"; exit 0
fi
rm -rf "$V"
/venv/bin/python -m venv "$V" --without-pip
SP="$V/lib/python3.12/site-packages"
PIP_NO_INDEX=1 /venv/bin/python -m pip install --quiet --no-index --no-deps --find-links /opt/veriftools/wheels \
  --target "$SP" z3-solver deal icontract crosshair-tool typeshed_client typing_inspect typing_extensions \
  mypy_extensions importlib_metadata zipp asttokens six packaging
# the repository's own dependencies (lark 1.2.2, attrs 24.2.0, maus, marshmallow, ...) stay those of /venv
echo "import site; site.addsitedir('/venv/lib/python3.12/site-packages')" > "$SP/_repo.pth"
"$V/bin/python" - <<'PY'
import z3, deal, lark, attrs
import ahbicht.content_evaluation
print("setup: z3", z3.get_version_string(), "lark", lark.__version__, "attrs", attrs.__version__, "ahbicht from", ahbicht.__file__)
PY
touch "$STAMP"
