"""Contracts of the Python bodies inside the JSON schemata (C19): the `post_load` constructors and the `pre_dump` /
`post_dump` / `pre_load` hooks.  marshmallow itself (field (de)serialisation, hook dispatch) is the assumed contract
A-MARSHMALLOW: `Schema.load(Schema.dump(x))` hands the post_load hook a dict `data` with one entry per declared field,
`data[f]` = the field-wise round trip of `getattr(pre_dump(x), f)`.  What is proved here, from the AST of the real
hooks: given that dict, the hook returns an object of the right class whose every attribute is `data[attribute]`
(no field dropped, swapped, defaulted or coerced), and the tree / token / requirement-indicator hooks are inverse to
their dump-side counterparts."""
import z3

from lark import Token, Tree

from ahbicht.models.enums import ModalMark, PrefixOperator
from pyvc.contracts import Bool, Enum, Inst, OneOfEnums, Opt, Raw, Str, contract
from pyvc.values import DictObj, Opaque, sv_str


def record(**fields):
    """a dict with exactly these (concrete) keys: what marshmallow hands to a post_load hook after a dump"""
    def mk(ex, st, name):
        return ex.alloc(st, DictObj([(sv_str(k), spec.make(ex, st, f"{name}[{k}]")) for k, spec in fields.items()]))
    return Raw(mk)


def opaque(kind):
    return Raw(lambda ex, st, n: Opaque(kind))


SCHEMA = Inst("Schema")
JS = "ahbicht.json_serialization.tree_schema:"


# ---- trees ---------------------------------------------------------------------------------------------------------------
@contract(JS + "TokenSchema.deserialize", prop=["C19"])
class TokenDeserialize:
    """Token(type, value) of the two loaded strings"""
    params = dict(self=SCHEMA, data=record(value=Str(), type=Str()))
    raises = {}

    def post_is_the_token(self, data, result):
        return isinstance(result, Token) and result.type == data["type"] and result.value == data["value"]


@contract(JS + "TreeSchema.deserialize", prop=["C19"])
class TreeDeserialize:
    """Tree(data, children) of the loaded rule name and the loaded children list (the same list object)"""
    params = dict(self=SCHEMA, data=record(data=Str(), children=opaque("inst:list")))
    raises = {}

    def post_is_the_tree(self, data, result):
        return isinstance(result, Tree) and result.data == data["data"] and result.children is data["children"]


@contract(JS + "_TokenOrTreeSchema.prepare_tree_for_serialization", prop=["C19"],
          key=JS + "_TokenOrTreeSchema.prepare_tree_for_serialization#tree")
class PrepareTree:
    """dump side, a sub-tree: wrapped as (token=None, tree=the sub-tree)"""
    params = dict(self=SCHEMA, data=Inst("Tree", data=Str(), children=opaque("inst:list")))
    raises = {}

    def post_wraps_the_tree(self, data, result):
        return result.token is None and result.tree is data


@contract(JS + "_TokenOrTreeSchema.prepare_tree_for_serialization", prop=["C19"],
          key=JS + "_TokenOrTreeSchema.prepare_tree_for_serialization#token")
class PrepareToken:
    """dump side, a token: wrapped as (token=the token, tree=None)"""
    params = dict(self=SCHEMA, data=Inst("Token", value=Str(), type=Str()))
    raises = {}

    def post_wraps_the_token(self, data, result):
        return result.tree is None and result.token is data


@contract(JS + "_TokenOrTreeSchema.deserialize", prop=["C19"], key=JS + "_TokenOrTreeSchema.deserialize#tree")
class UnwrapTree:
    """load side of a wrapped sub-tree (token null): the loaded Tree itself"""
    params = dict(self=SCHEMA, data=record(token=Raw(lambda ex, st, n: __import__("pyvc.values").values.sv_none()),
                                           tree=Inst("Tree", data=Str(), children=opaque("inst:list"))))
    raises = {}

    def post_is_the_loaded_tree(self, data, result):
        return result is data["tree"]


@contract(JS + "_TokenOrTreeSchema.deserialize", prop=["C19"], key=JS + "_TokenOrTreeSchema.deserialize#token")
class UnwrapToken:
    """load side of a wrapped token (tree null): the loaded Token itself; a token is a str, an EMPTY token value would
    be falsy - tokens of parsed expressions are never empty (every terminal of both grammars matches >= 1 character)"""
    params = dict(self=SCHEMA, data=record(token=Inst("Token", value=Str(nonempty=True), type=Str()),
                                           tree=Raw(lambda ex, st, n: __import__("pyvc.values").values.sv_none())))
    raises = {}

    def post_is_the_loaded_token(self, data, result):
        return result is data["token"]
