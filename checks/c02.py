"""C02 - parsers accept exactly the documented language; all else is a SyntaxError: hybrid.
P: exception flow ('only SyntaxError escapes', VisitError never) on the parsing entry points and is_valid_expression,
given A-LARK-PARSE / A-LARK-FOLD.  B: accept/reject against a reference recogniser (the language lives in Lark)."""
from checks.common import prove, run_bounded
from vlib.report import Ctx

LEVEL = "other"
R = "ahbicht.expressions.expression_resolver:"
TARGETS = ["ahbicht.expressions.condition_expression_parser:parse_condition_expression_to_tree",
           "ahbicht.expressions.ahb_expression_parser:parse_ahb_expression_to_single_requirement_indicator_expressions",
           R + "AhbExpressionResolverTransformer.CONDITION_EXPRESSION", R + "expand_time_conditions", R + "expand_packages",
           R + "parse_expression_including_unresolved_subexpressions", "ahbicht.content_evaluation:is_valid_expression"]


def run(ctx: Ctx) -> None:
    ctx.explanation = (
        "PROVED (z3, exception-flow VCs over the real AST): both parse functions convert every exception Lark.parse can "
        "raise (A-LARK-PARSE: UnexpectedEOF, UnexpectedCharacters; TypeError) into SyntaxError; the resolver lets "
        "nothing but SyntaxError escape for resolve_packages=False (in particular not lark's VisitError, which wraps "
        "the SyntaxError of a malformed condition part inside a well-formed AHB expression: A-LARK-FOLD) and "
        "additionally only NotImplementedError / the package resolver's own exceptions with resolve_packages=True; "
        "is_valid_expression turns SyntaxError into (False, message). DECIDED FOR ALL STRINGS: every terminal of both "
        "grammars (as Lark compiled it) denotes the documented token language - regular-language equivalence over the "
        "full Unicode alphabet with the character sets taken from the re engine itself. BOUNDED: the accepted "
        "language as a whole (Earley parser configured by a grammar string) against an independent reference recogniser.")
    ctx.trust("A-LARK-PARSE", "A-LARK-FOLD", "accepted language: bounded only (Lark)")
    prove(ctx, TARGETS)
    # the token languages of both grammars, decided over all of Unicode (a sufficient-condition obligation per terminal)
    from checks import tokenlang
    tokenlang.obligations(ctx)
    run_bounded(ctx, "C02")
