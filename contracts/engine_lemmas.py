"""Self-test of the ENCODER, not of ahbicht: small statements about Python's own semantics (statement forms and
operations the engine models) written as lemmas.  Each true lemma must be proved by the engine AND hold under CPython
for sampled arguments; each canary (deliberately false under CPython) must NOT be proved.  A proved canary, or a proved
lemma that CPython refutes, is an unsound encoder.  Run by `./vcheck selftest` (tools/engine_selftest.py)."""
from pyvc.contracts import Bool, Int, SeqOf, Str, lemma

I2 = dict(a=Int(-3, 3), b=Int(-3, 3))
I1 = dict(a=Int(-4, 4))


# --- try / finally -------------------------------------------------------------------------------------------------
@lemma(I2, prop=["ENGINE"])
def finally_runs_after_return_and_after_fall_through(a, b):
    log = []

    def f():
        try:
            if a > b:
                return 1
            log.append("body")
        finally:
            log.append("fin")
        return 2
    r = f()
    if a > b:
        return r == 1 and log == ["fin"]
    return r == 2 and log == ["body", "fin"]


@lemma(I2, prop=["ENGINE"])
def finally_runs_when_the_body_raises_and_the_exception_goes_on(a, b):
    log = []

    def f():
        try:
            if a > b:
                raise ValueError("x")
            log.append("body")
        finally:
            log.append("fin")
        return 2
    try:
        r = f()
    except ValueError:
        return a > b and log == ["fin"]
    return (not a > b) and r == 2 and log == ["body", "fin"]


@lemma(I2, prop=["ENGINE"])
def return_in_finally_replaces_the_pending_outcome(a, b):
    def f():
        try:
            if a > b:
                raise ValueError("x")
            return 1
        finally:
            return 3
    return f() == 3


@lemma(I2, prop=["ENGINE"])
def except_and_finally_together(a, b):
    log = []
    try:
        if a == b:
            raise KeyError("k")
        log.append("body")
    except KeyError:
        log.append("handled")
    finally:
        log.append("fin")
    return log == (["handled", "fin"] if a == b else ["body", "fin"])


@lemma(I2, prop=["ENGINE"], canary=True)
def canary_finally_is_skipped_on_return(a, b):
    log = []

    def f():
        try:
            return 1
        finally:
            log.append("fin")
    f()
    return log == []


# --- indexing (list of symbolic length, symbolic index) ---------------------------------------------------------------
INTS = SeqOf(lambda ex, st, name, i: Int().make(ex, st, name))


@lemma(dict(xs=INTS, a=Int()), prop=["ENGINE"])
def negative_index_counts_from_the_end(xs, a):
    n = len(xs)
    try:
        v = xs[a]
    except IndexError:
        return a >= n or a < -n
    if a >= 0:
        return a < n
    return a >= -n and v == xs[a + n]


@lemma(dict(xs=INTS, a=Int()), prop=["ENGINE"], canary=True)
def canary_negative_index_is_out_of_range(xs, a):
    try:
        xs[a]
    except IndexError:
        return True
    return a >= 0


# --- comprehensions ------------------------------------------------------------------------------------------------
@lemma(I2, prop=["ENGINE"])
def nested_generators_flatten_in_order(a, b):
    rows = [[a, b], [], [b, a, a]]
    return [x for row in rows for x in row] == [a, b, b, a, a]


@lemma(I2, prop=["ENGINE"])
def nested_generators_with_conditions(a, b):
    rows = [[a, b], [b]]
    out = [x + 1 for row in rows if len(row) > 1 for x in row if x > 0]
    exp = []
    if a > 0:
        exp.append(a + 1)
    if b > 0:
        exp.append(b + 1)
    return out == exp


@lemma(I2, prop=["ENGINE"])
def membership_after_filter(a, b):
    xs = [a, b, 2]
    evens = [n for n, x in enumerate(xs) if x == 2]
    return (0 in evens) == (a == 2) and (1 in evens) == (b == 2) and 2 in evens and 3 not in evens


@lemma(I2, prop=["ENGINE"], canary=True)
def canary_membership_ignores_the_filter(a, b):
    xs = [a, b]
    hits = [n for n, x in enumerate(xs) if x == 2]
    return 0 in hits


# --- loops with a carried counter (unrolled: concrete length) ----------------------------------------------------------
@lemma(I2, prop=["ENGINE"])
def counter_loop(a, b):
    xs = [a, b, a]
    k = 0
    picked = []
    for i, x in enumerate(xs):
        if x > 0:
            picked.append(i)
            k += 1
    return k == len(picked) and k == (2 if a > 0 else 0) + (1 if b > 0 else 0)


# --- strings / truthiness --------------------------------------------------------------------------------------------
@lemma(dict(s=Str(), flag=Bool()), prop=["ENGINE"])
def truthiness_of_strings_and_none(s, flag):
    v = s if flag else None
    if v:
        return flag and len(s) > 0
    return (not flag) or s == ""


@lemma(dict(s=Str()), prop=["ENGINE"], canary=True)
def canary_empty_string_is_truthy(s):
    if s:
        return True
    return False


# --- str.format == f-string ---------------------------------------------------------------------------------------
@lemma(dict(s=Str(), t=Str()), prop=["ENGINE"])
def format_is_the_fstring(s, t):
    return "({}) U ({})".format(s, t) == f"({s}) U ({t})" and "{1}-{0}".format(s, t) == t + "-" + s \
        and "[{key}]".format(key=s) == "[" + s + "]"


@lemma(dict(s=Str(), t=Str()), prop=["ENGINE"], canary=True)
def canary_format_swaps_its_arguments(s, t):
    return "{} {}".format(s, t) == t + " " + s


# --- a dict filled by a loop over a list of symbolic length --------------------------------------------------------------
STRS = SeqOf(lambda ex, st, name, i: Str().make(ex, st, name))


@lemma(dict(keys=STRS), prop=["ENGINE"])
def dict_filled_by_a_loop_maps_each_key_to_its_value(keys):
    d = {}
    for k in keys:
        d[k] = k + "!"
    return all(d[k] == k + "!" for k in keys)


@lemma(dict(keys=STRS), prop=["ENGINE"], canary=True)
def canary_dict_filled_by_a_loop_has_one_entry_per_list_item(keys):
    d = {}
    for k in keys:
        d[k] = k + "!"
    return len(d) == len(keys)


@lemma(dict(keys=STRS), prop=["ENGINE"])
def a_repeated_key_keeps_its_last_value(keys):
    d = {}
    for i, k in enumerate(keys):
        d[k] = i
    return all(d[k] >= i and keys[d[k]] == k for i, k in enumerate(keys))


@lemma(dict(keys=STRS), prop=["ENGINE"], canary=True)
def canary_a_repeated_key_keeps_its_first_value(keys):
    d = {}
    for i, k in enumerate(keys):
        d[k] = i
    return all(d[k] == i for i, k in enumerate(keys))


@lemma(dict(keys=STRS, probe=Str()), prop=["ENGINE"])
def membership_in_a_dict_filled_by_a_loop(keys, probe):
    d = {}
    for k in keys:
        d[k] = 1
    return (probe in d) == (probe in keys)


# --- constructs the proofs of the real functions rely on ------------------------------------------------------------------
@lemma(dict(a=Int(-2, 1001)), prop=["ENGINE"])
def chained_comparison_and_int_of_a_numeric_string(a):
    s = str(a)
    k = int(s)
    if 1 <= k <= 499:
        return a >= 1 and a < 500
    if 500 <= k <= 900:
        return not (a < 500) and not (a > 900)
    return a < 1 or a > 900


@lemma(dict(a=Int(-3, 3), b=Int(-3, 3)), prop=["ENGINE"])
def zip_pairs_by_position_and_dict_keeps_the_last_value(a, b):
    keys = ["x", "y", "x"]
    vals = [a, b, a + b]
    d = dict(zip(keys, vals))
    return d["x"] == a + b and d["y"] == b and len(d) == 2


@lemma(dict(a=Int(-3, 3), b=Int(-3, 3)), prop=["ENGINE"], canary=True)
def canary_dict_of_zip_keeps_the_first_value(a, b):
    d = dict(zip(["x", "y", "x"], [a, b, a + b]))
    return d["x"] == a


@lemma(dict(a=Int(-3, 3), b=Int(-3, 3)), prop=["ENGINE"])
def all_any_and_conditional_expressions(a, b):
    xs = [a, b, 1]
    pos = all(x > 0 for x in xs)
    some = any(x > 0 for x in xs)
    m = a if a > b else b
    return pos == (a > 0 and b > 0) and some and m >= a and m >= b and (m == a or m == b)


@lemma(dict(s=Str(), flag=Bool()), prop=["ENGINE"])
def optional_values_is_none_and_not_in(s, flag):
    v = s if flag else None
    known = ["a", "b"]
    if v is None:
        return not flag
    if v not in known:
        return flag and s != "a" and s != "b"
    return s == "a" or s == "b"


@lemma(dict(a=Int(-3, 3), b=Int(-3, 3)), prop=["ENGINE"])
def tuple_unpacking_augmented_assignment_and_list_concatenation(a, b):
    x, y = b, a
    x += 1
    zs = [x] + [y, y]
    zs.append(x - 1)
    return zs == [b + 1, a, a, b] and len(zs) == 4


@lemma(dict(a=Int(-3, 3)), prop=["ENGINE"])
def exceptions_are_caught_by_class_hierarchy(a):
    def f():
        if a > 0:
            raise KeyError("k")
        if a < 0:
            raise ValueError("v")
        return 0
    try:
        r = f()
    except LookupError:
        return a > 0
    except Exception:
        return a < 0
    return r == 0 and a == 0


@lemma(dict(a=Int(-3, 3)), prop=["ENGINE"], canary=True)
def canary_key_error_is_not_a_lookup_error(a):
    try:
        if a > 0:
            raise KeyError("k")
    except LookupError:
        return False
    return True


# --- string and dict operations ---------------------------------------------------------------------------------------------
@lemma(dict(s=Str(), t=Str()), prop=["ENGINE"])
def prefixes_suffixes_lengths_and_substrings(s, t):
    u = s + "P" + t
    return u.startswith(s) and u.endswith(t) and len(u) == len(s) + 1 + len(t) and ("P" in u) \
        and (s + t).endswith(t) and ("" in s) and s.startswith("")


@lemma(dict(s=Str()), prop=["ENGINE"], canary=True)
def canary_every_string_ends_with_p(s):
    return s.endswith("P")


@lemma(dict(a=Int(-3, 3), flag=Bool()), prop=["ENGINE"])
def dict_get_membership_and_overwriting(a, flag):
    d = {"x": a}
    if flag:
        d["y"] = a + 1
    d["x"] = a + 2
    return d.get("x") == a + 2 and d.get("z") is None and d.get("z", 7) == 7 and ("y" in d) == flag \
        and len(d) == (2 if flag else 1)


@lemma(dict(a=Int(-3, 3), b=Int(-3, 3)), prop=["ENGINE"])
def enumerate_and_range_agree(a, b):
    xs = [a, b, a]
    by_enum = [i for i, x in enumerate(xs) if x == a]
    by_range = [i for i in range(len(xs)) if xs[i] == a]
    return by_enum == by_range and 0 in by_enum and 2 in by_enum and (1 in by_enum) == (a == b)


@lemma(dict(a=Int(-3, 3), b=Int(-3, 3)), prop=["ENGINE"])
def boolean_operators_return_operands(a, b):
    x = a or b
    y = a and b
    return (x == (a if a != 0 else b)) and (y == (b if a != 0 else a))


@lemma(dict(flag=Bool(), s=Str()), prop=["ENGINE"])
def is_versus_equality_on_none_and_booleans(flag, s):
    v = None if flag else s
    w = True if flag else None
    return (v is None) == flag and (w is True) == flag and (w is None) == (not flag) and (v == s or flag)


# --- objects: aliasing, equality of attrs classes, enum members -------------------------------------------------------------
from ahbicht.models.condition_nodes import ConditionFulfilledValue, EvaluatedFormatConstraint  # noqa: E402
from ahbicht.models.enums import ModalMark  # noqa: E402
from pyvc.contracts import Enum  # noqa: E402


@lemma(dict(flag=Bool(), s=Str()), prop=["ENGINE"])
def two_names_for_one_object_see_each_others_writes(flag, s):
    a = EvaluatedFormatConstraint(format_constraint_fulfilled=flag, error_message=None)
    b = a
    c = EvaluatedFormatConstraint(format_constraint_fulfilled=flag, error_message=None)
    same_before = a == c
    b.error_message = s
    return same_before and a.error_message == s and c.error_message is None and a is b and a is not c and a != c


@lemma(dict(flag=Bool(), s=Str()), prop=["ENGINE"], canary=True)
def canary_assignment_copies_the_object(flag, s):
    a = EvaluatedFormatConstraint(format_constraint_fulfilled=flag, error_message=None)
    b = a
    b.error_message = s
    return a.error_message is None


@lemma(dict(x=Enum("ConditionFulfilledValue"), m=Enum("ModalMark")), prop=["ENGINE"])
def enum_members_identity_equality_and_class(x, m):
    return (x == ConditionFulfilledValue.NEUTRAL) == (x is ConditionFulfilledValue.NEUTRAL) \
        and isinstance(x, ConditionFulfilledValue) and not isinstance(m, ConditionFulfilledValue) \
        and (x in (ConditionFulfilledValue.FULFILLED, ConditionFulfilledValue.UNFULFILLED)) \
        == (x is ConditionFulfilledValue.FULFILLED or x is ConditionFulfilledValue.UNFULFILLED) \
        and (m is ModalMark.MUSS or m is ModalMark.SOLL or m is ModalMark.KANN)


@lemma(dict(flag=Bool()), prop=["ENGINE"])
def a_list_holds_references_not_copies(flag):
    a = EvaluatedFormatConstraint(format_constraint_fulfilled=flag, error_message=None)
    xs = [a, a]
    xs[0].error_message = "changed"
    ys = list(xs)
    return xs[1].error_message == "changed" and ys[0] is a and len(ys) == 2


# --- coroutines, closures, exceptions with attributes ----------------------------------------------------------------------
import asyncio  # noqa: E402


@lemma(dict(a=Int(-3, 3), b=Int(-3, 3)), prop=["ENGINE"])
async def gather_returns_results_in_argument_order(a, b):
    async def one(x):
        return x + 1

    async def two(x, y):
        return x - y
    r = await asyncio.gather(one(a), two(a, b), one(b))
    single = await one(7)
    return r == [a + 1, a - b, b + 1] and single == 8


@lemma(dict(a=Int(-3, 3), b=Int(-3, 3)), prop=["ENGINE"])
async def an_exception_inside_a_gathered_coroutine_propagates(a, b):
    async def may_fail(x):
        if x > b:
            raise ValueError("too big")
        return x
    try:
        r = await asyncio.gather(may_fail(a), may_fail(b))
    except ValueError:
        return a > b
    return a <= b and r == [a, b]


@lemma(dict(a=Int(-3, 3), b=Int(-3, 3)), prop=["ENGINE"])
def closures_see_the_current_value_of_outer_variables(a, b):
    x = a

    def get():
        return x
    before = get()
    x = b
    after = get()
    return before == a and after == b


@lemma(dict(a=Int(-3, 3)), prop=["ENGINE"])
def exception_objects_carry_their_arguments(a):
    try:
        if a > 0:
            raise ValueError("positive")
        raise KeyError("other")
    except ValueError as e:
        return a > 0 and e.args[0] == "positive"
    except KeyError as e:
        return a <= 0 and e.args[0] == "other"


@lemma(dict(a=Int(-3, 3)), prop=["ENGINE"])
def try_else_runs_only_without_exception_and_reraise_keeps_the_exception(a):
    log = []

    def f():
        try:
            if a > 0:
                raise ValueError("v")
        except ValueError:
            log.append("handler")
            raise
        else:
            log.append("else")
        return 1
    try:
        r = f()
    except ValueError:
        return a > 0 and log == ["handler"]
    return a <= 0 and r == 1 and log == ["else"]


@lemma(dict(s=Str(), t=Str(), x=Enum("ModalMark")), prop=["ENGINE"])
def join_and_fstrings(s, t, x):
    joined = ", ".join([s, t])
    return joined == s + ", " + t and f"[{s}]" == "[" + s + "]" and ", ".join([s]) == s and "".join([]) == ""



# --- the asyncio / contextvars model (A-ASYNCIO M1, M2, M4) against CPython --------------------------------------------------
from contextvars import ContextVar  # noqa: E402

_cv: ContextVar = ContextVar("engine_lemma_cv", default=None)


@lemma(dict(a=Int(-3, 3), b=Int(-3, 3)), prop=["ENGINE"])
async def gathered_coroutines_run_in_copies_of_the_context(a, b):
    _cv.set(a)

    async def child(x):
        before = _cv.get()
        _cv.set(x)
        return [before, _cv.get()]
    r = await asyncio.gather(child(b), child(b + 1))
    return _cv.get() == a and r[0] == [a, b] and r[1] == [a, b + 1]


@lemma(dict(a=Int(-3, 3), b=Int(-3, 3)), prop=["ENGINE"])
async def an_awaited_coroutine_shares_the_callers_context(a, b):
    _cv.set(a)

    async def child(x):
        before = _cv.get()
        _cv.set(x)
        return before
    seen = await child(b)
    return seen == a and _cv.get() == b


@lemma(dict(a=Int(-3, 3), b=Int(-3, 3)), prop=["ENGINE"], canary=True)
async def canary_a_gathered_coroutine_changes_the_callers_context(a, b):
    _cv.set(a)

    async def child(x):
        _cv.set(x)
        return x
    await asyncio.gather(child(b))
    return _cv.get() == b


# --- classes: methods, inheritance, super(), properties, static methods, mutation through self ---------------------------------
class _Base:
    kind = "base"

    def __init__(self, x):
        self.x = x
        self.log = []

    def double(self):
        return 2 * self.x

    @staticmethod
    def three():
        return 3

    @property
    def plus_one(self):
        return self.x + 1

    def bump(self):
        self.x = self.x + 1
        self.log.append(self.x)
        return self


class _Derived(_Base):
    def __init__(self, x, y):
        super().__init__(x)
        self.y = y

    def double(self):
        return super().double() + self.y


@lemma(dict(a=Int(-3, 3), b=Int(-3, 3)), prop=["ENGINE"])
def classes_methods_inheritance_and_properties(a, b):
    d = _Derived(a, b)
    base = _Base(a)
    ok = d.double() == 2 * a + b and base.double() == 2 * a and d.plus_one == a + 1 and _Base.three() == 3 \
        and isinstance(d, _Base) and not isinstance(base, _Derived) and d.kind == "base"
    d.bump().bump()
    return ok and d.x == a + 2 and d.log == [a + 1, a + 2] and base.x == a and d.double() == 2 * (a + 2) + b


@lemma(dict(a=Int(-3, 3)), prop=["ENGINE"], canary=True)
def canary_methods_work_on_a_copy_of_self(a):
    o = _Base(a)
    o.bump()
    return o.x == a


# --- loops over lists of symbolic length: early exit, accumulation ------------------------------------------------------------
@lemma(dict(xs=INTS), prop=["ENGINE"])
def a_search_loop_returns_the_first_match(xs):
    def first_positive(values):
        for i, x in enumerate(values):
            if x > 0:
                return i
        return None
    r = first_positive(xs)
    if r is None:
        return all(x <= 0 for x in xs)
    return xs[r] > 0 and all(xs[j] <= 0 for j in range(r))


@lemma(dict(xs=INTS), prop=["ENGINE"], canary=True)
def canary_a_search_loop_returns_the_last_match(xs):
    def first_positive(values):
        for i, x in enumerate(values):
            if x > 0:
                return i
        return None
    r = first_positive(xs)
    if r is None:
        return True
    return all(xs[j] <= 0 for j in range(r + 1, len(xs)))


@lemma(dict(xs=INTS), prop=["ENGINE"])
def a_mapping_loop_keeps_length_and_order(xs):
    out = []
    for x in xs:
        if x > 0:
            out.append(x + 1)
        else:
            out.append(0)
    return len(out) == len(xs) and all((out[i] == xs[i] + 1) if xs[i] > 0 else (out[i] == 0) for i in range(len(xs)))


@lemma(dict(xs=INTS), prop=["ENGINE"])
def a_raising_loop_raises_iff_some_element_is_bad(xs):
    def check(values):
        for x in values:
            if x < 0:
                raise ValueError("negative")
        return True
    try:
        check(xs)
    except ValueError:
        return any(x < 0 for x in xs)
    return all(x >= 0 for x in xs)


# --- integer arithmetic (Python floors, SMT-LIB div/mod are Euclidean) ---------------------------------------------------------
@lemma(dict(a=Int(-7, 7), b=Int(-3, 3)), prop=["ENGINE"])
def floor_division_and_modulo(a, b):
    if b == 0:
        try:
            a // b
        except ZeroDivisionError:
            return True
        return False
    q = a // b
    r = a % b
    return q * b + r == a and (0 <= r < b if b > 0 else b < r <= 0)


@lemma(dict(a=Int(-7, 7), b=Int(-3, 3)), prop=["ENGINE"])
def arithmetic_and_comparisons(a, b):
    return (a - b) + b == a and a * 2 == a + a and (a < b) == (b > a) and (a <= b) == (not a > b) \
        and -(-a) == a


# --- mixed-type comparisons, truthiness, isinstance with tuples ---------------------------------------------------------------
@lemma(dict(a=Int(-2, 2), s=Str(), flag=Bool()), prop=["ENGINE"])
def values_of_different_types_are_not_equal(a, s, flag):
    n = None
    return (a == s) is False and (s == n) is False and (a != n) and (n == None) \
        and (flag == (not (not flag))) and ((a == 0) == (not a)) and ((s == "") == (not s)) and (not n)  # noqa: E711


@lemma(dict(a=Int(-2, 2), s=Str(), flag=Bool()), prop=["ENGINE"])
def isinstance_with_tuples_and_bool_is_an_int(a, s, flag):
    v = a if flag else s
    return isinstance(v, (int, str)) and isinstance(v, int) == flag and isinstance(v, str) == (not flag) \
        and isinstance(flag, bool) and isinstance(flag, int) and not isinstance(a, bool) and not isinstance(None, (int, str))


@lemma(dict(a=Int(-2, 2), b=Int(-2, 2)), prop=["ENGINE"])
def tuples_and_default_arguments(a, b):
    def f(x, y=10, *, z=3):
        return (x, y, z)
    t = f(a)
    u = f(a, b, z=b)
    return t == (a, 10, 3) and u[1] == b and u[2] == b and len(t) == 3 and t[0] == a and (a, b) == (a, b) \
        and ((a, b) == (b, a)) == (a == b)


# --- getattr / hasattr, dict comprehensions, zip over lists of symbolic length ---------------------------------------------------
@lemma(dict(a=Int(-3, 3)), prop=["ENGINE"])
def getattr_with_default(a):
    o = _Base(a)
    return getattr(o, "x") == a and getattr(o, "missing", 7) == 7 and getattr(o, "kind", None) == "base"


@lemma(dict(xs=INTS), prop=["ENGINE"])
def zip_of_a_list_with_its_image_pairs_by_position(xs):
    ys = [x + 1 for x in xs]
    pairs = list(zip(xs, ys))
    d = {i: p for i, p in enumerate(pairs)}
    return all(p[1] == p[0] + 1 for p in pairs) and len(pairs) == len(xs) \
        and all(pairs[i][0] == xs[i] for i in range(len(xs)))


@lemma(dict(a=Int(-3, 3), b=Int(-3, 3)), prop=["ENGINE"])
def dict_comprehension_and_items(a, b):
    d = {k: v * 2 for k, v in [("p", a), ("q", b)]}
    ks = [k for k in d]
    vs = [v for _, v in d.items()]
    return d["p"] == 2 * a and d["q"] == 2 * b and ks == ["p", "q"] and vs == [2 * a, 2 * b] and list(d.keys()) == ks \
        and list(d.values()) == vs


@lemma(dict(s=Str()), prop=["ENGINE"])
def constant_string_methods(s):
    return "Muss".upper() == "MUSS" and "KANN".lower() == "kann" \
        and (s.upper() == s.upper()) and "abc".startswith("ab") and not "abc".endswith("ab") and ("b" in "abc") and ("d" not in "abc")


@lemma(dict(a=Int(-3, 3), flag=Bool()), prop=["ENGINE"])
def nested_lists_and_aliasing_of_inner_lists(a, flag):
    inner = [a]
    outer = [inner, inner]
    if flag:
        outer[0].append(a + 1)
    return len(outer[1]) == (2 if flag else 1) and outer[0] is outer[1] and outer[1][0] == a
