"""./vcheck replay <replays/Cxx/file.json>: shows the recorded violation and re-runs it: a bounded witness carries a
Python snippet that reproduces it on the real code; for a violated proof obligation the property's check is re-run and
the obligation looked up again (the counter-model itself is in the file)."""
from __future__ import annotations

import json
import os
import subprocess
import sys
from pathlib import Path

VERIF = Path(__file__).resolve().parent.parent


def replay_file(path: str) -> int:
    p = Path(path)
    if not p.is_absolute():
        p = VERIF / p
    rec = json.loads(p.read_text())
    print(f"property   : {rec['property']}\nobligation : {rec['obligation']}\nmessage    : {rec['message']}")
    print(f"witness    : {json.dumps(rec.get('witness'), ensure_ascii=False)[:1500]}")
    code = rec.get("replay_code") or ""
    if "\n" in code or code.startswith(("import ", "from ")):
        env = dict(os.environ)
        r = subprocess.run([sys.executable, "-W", "ignore", "-c", code], env=env, capture_output=True, text=True,
                           cwd=str(VERIF), timeout=600)
        print("--- replay snippet output ---")
        print((r.stdout + r.stderr)[-3000:])
        print(f"--- replay snippet exit code {r.returncode} ---")
        return 1 if r.returncode != 0 else 0
    r = subprocess.run([str(VERIF / "vcheck"), rec["property"], "--tier", rec.get("tier", "quick")], capture_output=True,
                       text=True, cwd=str(VERIF))
    hit = [l for l in r.stdout.splitlines() if rec["obligation"].split("/", 1)[-1] in l and "obligation=" in l]
    print("--- re-run of the check ---")
    print("\n".join(hit[:5]) or "(the obligation is not reported any more)")
    if rec.get("solver_output"):
        print("--- counter-model of the solver ---")
        print(str(rec["solver_output"])[:2000])
    return 1 if hit else 0
