"""Expression trees and the spec functions (ORACLE) of C04–C08, exactly as in DESIGN.md Appendix A.

Everything in this file is written from the *property statements* (C03–C08 in /verif/properties.jsonl); nothing is
derived from, or calls, the code under test (the only ahbicht import is the enum of the four condition states, via
specs.logic4).

    T ::= Leaf(kind ∈ {RC, HINT, FC}, key) | Node(op ∈ {AND, OR, XOR, THEN}, l, r)

THEN is juxtaposition ("[1][901]").  The documented precedence is  brackets > juxtaposition > U > X > O.  The grouping
of a run of one and the same operator is not specified (C01), therefore `render` brackets every operand that is a
composition of the same or of a looser operator: the text then denotes exactly the tree it was rendered from.
"""
from __future__ import annotations

import itertools
from typing import Dict, Iterable, Iterator, List, NamedTuple, Optional, Sequence, Tuple, Union

from specs.logic4 import F, K, N, U, and4, or4, refines, xor4  # noqa: F401  (re-exported)

RC, HINT, FC, EC = "RC", "HINT", "FC", "EC"
AND, OR, XOR, THEN = "AND", "OR", "XOR", "THEN"
BOOL_OPS = (AND, OR, XOR)
ALL_OPS = (AND, OR, XOR, THEN)
LETTER = {AND: "U", OR: "O", XOR: "X"}
PREC = {OR: 1, XOR: 2, AND: 3, THEN: 4}  # larger binds tighter

RC_KEYS = ("1", "2", "3")
HINT_KEYS = ("501", "502")
FC_KEYS = ("901", "902")


class Leaf(NamedTuple):
    kind: str
    key: str


class Node(NamedTuple):
    op: str
    l: "Tree"  # noqa: E741
    r: "Tree"


Tree = Union[Leaf, Node]
Path = Tuple[int, ...]


def is_leaf(t: Tree) -> bool:
    return isinstance(t, Leaf)


def default_leaves(rc_keys: Sequence[str] = RC_KEYS, hint_keys: Sequence[str] = HINT_KEYS,
                   fc_keys: Sequence[str] = FC_KEYS) -> List[Leaf]:
    return [Leaf(RC, k) for k in rc_keys] + [Leaf(HINT, k) for k in hint_keys] + [Leaf(FC, k) for k in fc_keys]


# ------------------------------------------------------------------------------------------ structure helpers
def n_leaves(t: Tree) -> int:
    return 1 if is_leaf(t) else n_leaves(t.l) + n_leaves(t.r)


def n_ops(t: Tree) -> int:
    return 0 if is_leaf(t) else 1 + n_ops(t.l) + n_ops(t.r)


def leaves_of(t: Tree) -> List[Leaf]:
    return [t] if is_leaf(t) else leaves_of(t.l) + leaves_of(t.r)


def keys_of(t: Tree, kind: str) -> List[str]:
    """distinct keys of that kind, ascending by number"""
    return sorted({lf.key for lf in leaves_of(t) if lf.kind == kind}, key=int)


def positions(t: Tree, path: Path = ()) -> Iterator[Tuple[Path, Tree]]:
    """all sub-expressions with their path (0 = left, 1 = right), pre-order"""
    yield path, t
    if not is_leaf(t):
        yield from positions(t.l, path + (0,))
        yield from positions(t.r, path + (1,))


def subtree(t: Tree, path: Path) -> Tree:
    for step in path:
        t = t.l if step == 0 else t.r
    return t


def replace(t: Tree, path: Path, new: Tree) -> Tree:
    if not path:
        return new
    if path[0] == 0:
        return Node(t.op, replace(t.l, path[1:], new), t.r)
    return Node(t.op, t.l, replace(t.r, path[1:], new))


# ------------------------------------------------------------------------------------------ rendering
def render(t: Tree, extra: Iterable[Path] = (), style: str = "forced", _path: Path = ()) -> str:
    """Expression text of `t`.

    style="forced":  an operand is bracketed iff it is a composition whose operator does not bind tighter than the
                     operator of the enclosing composition (so also for the same operator) -> the text denotes exactly
                     this tree under the precedence brackets > juxtaposition > U > X > O.
    style="minimal": an operand is bracketed iff its operator binds looser (runs of one operator are written flat; the
                     grouping of such a run is unspecified, only usable where the operator is associative).
    style="full":    every composite operand is bracketed.
    `extra`: paths of sub-expressions that get an additional, redundant pair of brackets."""
    extra = extra if isinstance(extra, (set, frozenset)) else frozenset(extra)
    if is_leaf(t):
        s = f"[{t.key}]"
    else:
        parts = []
        for i, c in ((0, t.l), (1, t.r)):
            cs = render(c, extra, style, _path + (i,))
            if not is_leaf(c):
                if style == "full" or (style == "forced" and PREC[c.op] <= PREC[t.op]) or \
                        (style == "minimal" and (PREC[c.op] < PREC[t.op] or t.op == THEN)):
                    cs = f"({cs})"
            parts.append(cs)
        s = parts[0] + parts[1] if t.op == THEN else f"{parts[0]} {LETTER[t.op]} {parts[1]}"
    if _path in extra:
        s = f"({s})"
    return s


# ------------------------------------------------------------------------------------------ spec functions (Appendix A)
def kind_of(t: Tree) -> str:
    return t.kind if is_leaf(t) else EC


def carries_rc(t: Tree) -> bool:
    return t.kind == RC if is_leaf(t) else carries_rc(t.l) or carries_rc(t.r)


def in_domain(t: Tree) -> bool:
    """the quantifier of C04–C07: THEN attaches one FC leaf to a hint leaf or to an operand that carries a
    requirement constraint"""
    if is_leaf(t):
        return True
    if t.op == THEN:
        fc, other = (t.l, t.r) if kind_of(t.l) == FC else (t.r, t.l)
        return kind_of(fc) == FC and in_domain(other) and (kind_of(other) == HINT or carries_rc(other))
    return in_domain(t.l) and in_domain(t.r)


def valid(t: Tree) -> bool:
    """C06, purely structural"""
    if is_leaf(t):
        return True
    if not (valid(t.l) and valid(t.r)):
        return False
    if t.op == OR or t.op == XOR:
        if {kind_of(t.l), kind_of(t.r)} == {HINT, FC}:
            return False
        if carries_rc(t.l) != carries_rc(t.r):
            return False
    return True


def spec_cf(t: Tree, asg: Dict[str, object]):
    """asg: requirement key -> {F, U, K}"""
    if is_leaf(t):
        return asg[t.key] if t.kind == RC else N
    if t.op == AND:
        return and4(spec_cf(t.l, asg), spec_cf(t.r, asg))
    if t.op == OR:
        return or4(spec_cf(t.l, asg), spec_cf(t.r, asg))
    if t.op == XOR:
        return xor4(spec_cf(t.l, asg), spec_cf(t.r, asg))
    return spec_cf(t.r, asg) if kind_of(t.l) == FC else spec_cf(t.l, asg)  # THEN: the partner's state


def outcome(cf) -> Tuple[Optional[bool], Optional[bool]]:
    """(requirement_constraints_fulfilled, requirement_is_conditional)"""
    if cf is F:
        return (True, True)
    if cf is N:
        return (True, False)
    if cf is U:
        return (False, True)
    return (None, None)


# ---- C07: abstract format-constraint term  BOT | Key(k) | Bin(op, a, b)
BOT = "BOT"


class Key(NamedTuple):
    k: str


class Bin(NamedTuple):
    op: str
    a: object
    b: object


def is_key(term) -> bool:
    return isinstance(term, Key)


def fc_spec(t: Tree, asg: Dict[str, object]):
    if is_leaf(t):
        return Key(t.key) if t.kind == FC else BOT
    if t.op == THEN:
        fc, other = (t.l, t.r) if kind_of(t.l) == FC else (t.r, t.l)
        if spec_cf(other, asg) is F or kind_of(other) == HINT:
            inner = fc_spec(other, asg)
            return Key(fc.key) if inner == BOT else Bin(AND, Key(fc.key), inner)
        return BOT
    a, b = fc_spec(t.l, asg), fc_spec(t.r, asg)
    return a if b == BOT else b if a == BOT else Bin(t.op, a, b)


def fc_value(term, truth: Dict[str, bool]) -> bool:
    """C07/C08: Boolean reading; BOT (absent / None / "") counts as fulfilled"""
    if term == BOT:
        return True
    if is_key(term):
        return truth[term.k]
    x, y = fc_value(term.a, truth), fc_value(term.b, truth)
    return (x and y) if term.op == AND else (x or y) if term.op == OR else (x != y)


def fc_term_keys(term) -> List[str]:
    if term == BOT:
        return []
    if is_key(term):
        return [term.k]
    return fc_term_keys(term.a) + fc_term_keys(term.b)


def bool_value(t: Tree, truth: Dict[str, bool]) -> bool:
    """C08: Boolean value of a tree over format-constraint leaves with AND/OR/XOR"""
    if is_leaf(t):
        return truth[t.key]
    x, y = bool_value(t.l, truth), bool_value(t.r, truth)
    return (x and y) if t.op == AND else (x or y) if t.op == OR else (x != y)


# ------------------------------------------------------------------------------------------ enumeration
def enumerate_trees(max_leaves: int, leaves: Sequence[Leaf], ops: Sequence[str] = ALL_OPS,
                    domain_only: bool = True) -> List[List[Tree]]:
    """result[n] = all trees with exactly n leaves (result[0] is empty), in a deterministic order.  With
    `domain_only` only trees inside the quantifier domain (`in_domain`) are produced (in_domain is hereditary, so the
    filter is applied level by level)."""
    by_n: List[List[Tree]] = [[], list(leaves)]
    for n in range(2, max_leaves + 1):
        level: List[Tree] = []
        for k in range(1, n):
            for op in ops:
                for l in by_n[k]:  # noqa: E741
                    for r in by_n[n - k]:
                        t = Node(op, l, r)
                        if domain_only and op == THEN and not _then_ok(l, r):
                            continue
                        level.append(t)
        by_n.append(level)
    return by_n


def _then_ok(l: Tree, r: Tree) -> bool:  # noqa: E741
    """top-level clause of in_domain for Node(THEN, l, r) whose operands are already in the domain"""
    fc, other = (l, r) if kind_of(l) == FC else (r, l)
    return kind_of(fc) == FC and (kind_of(other) == HINT or carries_rc(other))


def assignments(keys: Sequence[str], values: Sequence[object]) -> List[Dict[str, object]]:
    """all maps keys -> values, deterministic order"""
    return [dict(zip(keys, combo)) for combo in itertools.product(values, repeat=len(keys))]


def refinements(asg: Dict[str, object]) -> List[Dict[str, object]]:
    """all assignments obtained by replacing every UNKNOWN entry by FULFILLED or UNFULFILLED"""
    unknown = [k for k, v in asg.items() if v is K]
    out = []
    for combo in itertools.product((F, U), repeat=len(unknown)):
        a = dict(asg)
        a.update(zip(unknown, combo))
        out.append(a)
    return out


CODE = {F: "F", U: "U", K: "K", N: "N"}
DECODE = {"F": F, "U": U, "K": K, "N": N}


def encode_asg(keys: Sequence[str], asg: Dict[str, object]) -> str:
    return "".join(CODE[asg[k]] for k in keys)


def decode_asg(keys: Sequence[str], word: str) -> Dict[str, object]:
    return {k: DECODE[c] for k, c in zip(keys, word)}


def encode_truth(keys: Sequence[str], truth: Dict[str, bool]) -> str:
    return "".join("1" if truth[k] else "0" for k in keys)


def decode_truth(keys: Sequence[str], word: str) -> Dict[str, bool]:
    return {k: c == "1" for k, c in zip(keys, word)}


def self_check() -> None:
    """cheap sanity checks of the oracle itself (run by the bounded modules before they judge the code)"""
    a, b, c = Leaf(RC, "1"), Leaf(HINT, "501"), Leaf(FC, "901")
    assert render(Node(AND, Node(AND, a, b), c)) == "([1] U [501]) U [901]"
    assert render(Node(OR, Node(AND, a, b), c)) == "[1] U [501] O [901]"
    assert render(Node(AND, Node(OR, a, b), c)) == "([1] O [501]) U [901]"
    assert render(Node(THEN, Node(AND, a, a), c)) == "([1] U [1])[901]"
    assert render(Node(THEN, a, c), extra=[(), (0,)]) == "(([1])[901])"
    assert in_domain(Node(THEN, a, c)) and in_domain(Node(THEN, c, b)) and not in_domain(Node(THEN, c, c))
    assert not in_domain(Node(THEN, a, a)) and not in_domain(Node(THEN, Node(AND, b, b), c))
    assert valid(Node(OR, a, a)) and not valid(Node(OR, a, b)) and not valid(Node(XOR, b, c))
    assert valid(Node(OR, b, b)) and valid(Node(AND, a, b)) and not valid(Node(AND, Node(OR, a, c), a))
    assert outcome(spec_cf(Node(AND, a, b), {"1": U})) == (False, True)
    assert outcome(spec_cf(Node(THEN, c, b), {})) == (True, False)
    assert fc_spec(Node(THEN, a, c), {"1": U}) == BOT and fc_spec(Node(THEN, a, c), {"1": F}) == Key("901")
    assert fc_value(fc_spec(Node(OR, Node(THEN, a, c), Node(THEN, a, Leaf(FC, "902"))), {"1": F}),
                    {"901": False, "902": True}) is True
