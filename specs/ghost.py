"""Native implementations of the ghost functions that contract clauses may call (symbolically they are interpreted by
pyvc: see pyvc/fxview.py and pyvc/assumed.py).  Used when a counter-model is replayed on the real code."""
from __future__ import annotations

from typing import Optional

_OPS = {"and_composition": "U", "or_composition": "O", "xor_composition": "X"}


def _canon(tree) -> str:
    from lark import Token, Tree
    if isinstance(tree, Tree):
        if tree.data == "condition":
            return f"[{tree.children[0].value}]"
        if tree.data in _OPS:
            return "(" + _canon(tree.children[0]) + _OPS[tree.data] + _canon(tree.children[1]) + ")"
    raise ValueError(f"not a format constraint expression tree: {tree!r}")


def fx_meaning(s: Optional[str]) -> Optional[str]:
    """canonical, fully parenthesised form of a format-constraint expression string; None for None"""
    if s is None:
        return None
    from ahbicht.expressions.condition_expression_parser import parse_condition_expression_to_tree
    return _canon(parse_condition_expression_to_tree(s))


def fx_wellformed(s) -> bool:
    if not isinstance(s, str) or not s:
        return False
    try:
        fx_meaning(s)
        return True
    except (SyntaxError, ValueError):
        return False


def fx_is_key(s) -> bool:
    return isinstance(s, str) and s.isdigit()
