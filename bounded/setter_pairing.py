"""Bounded clause shared by C12 (and C06): `is_valid_expression` evaluates the expression once per possible content
evaluation result, each evaluation in a task of its own, and hands every evaluation ITS OWN result through the
user-supplied setter ("concurrent evaluations that take their evaluatable data from context-local storage each see
only their own data").  The harness supplies a recording setter and RC evaluators that record, per asyncio task, which
data they see; it checks that (a) the results handed to the setter are exactly the generated ones, each once, and (b)
inside every task the evaluators see what the setter was given in THAT task - under several forced completion orders
(the evaluators yield a different number of times per key and result)."""
from __future__ import annotations

import asyncio
import time
from typing import Any, Dict, List

EXPRESSIONS = ["Muss [1] U [2]", "Muss [1] O [2] U [3]", "Muss [1][901] Soll [2]", "X [1] X [2]", "Muss ([1] O [2])[902] U [3]",
               "Muss [1] U ([2] O [501])", "Soll [3] Kann [2] O [501]"]


def run(ctx, prop: str) -> None:
    import inject
    from ahbicht.content_evaluation import is_valid_expression
    from ahbicht.content_evaluation.evaluationdatatypes import EvaluatableData, EvaluatableDataProvider
    from ahbicht.content_evaluation.evaluator_factory import create_content_evaluation_result_based_evaluators
    from ahbicht.content_evaluation.token_logic_provider import SingletonTokenLogicProvider, TokenLogicProvider
    from ahbicht.models.content_evaluation_result import ContentEvaluationResultSchema
    from bounded.common import _cer_body, _provider  # the context-local storage the injected provider reads
    from maus.edifact import EdifactFormat, EdifactFormatVersion
    t0 = time.time()
    schema = ContentEvaluationResultSchema()
    bad: List[Dict[str, Any]] = []
    n = 0
    nontrivial = 0
    for delay_mode in (0, 1, 2):
        for expr in EXPRESSIONS:
            handed: List[str] = []              # canonical text of every result handed to the setter, in call order
            own: Dict[Any, str] = {}            # task -> what the setter was given in that task
            seen: List[Dict[str, Any]] = []     # what evaluators saw: (task, data)

            def setter(cer, handed=handed, own=own):
                body = schema.dumps(cer)
                handed.append(body)
                own[asyncio.current_task()] = body
                _cer_body.set(schema.dump(cer))

            evs = create_content_evaluation_result_based_evaluators(EdifactFormat.UTILMD, EdifactFormatVersion.FV2210)
            rc_ev = next(e for e in evs if hasattr(e, "evaluate_single_condition"))
            orig = rc_ev.evaluate_single_condition

            async def spying(condition_key, evaluatable_data, *a, orig=orig, seen=seen, **kw):
                # yield a number of times that depends on key and data, so that tasks overtake each other
                body = schema.dumps(schema.load(evaluatable_data.body))
                for _ in range((int(condition_key) * 7 + len(body) * delay_mode) % (1 + 3 * delay_mode) if delay_mode else 0):
                    await asyncio.sleep(0)
                seen.append({"task": asyncio.current_task(), "data": body})
                return await orig(condition_key, evaluatable_data, *a, **kw)
            rc_ev.evaluate_single_condition = spying
            tlp = SingletonTokenLogicProvider([*evs])

            def cfg(binder, tlp=tlp):
                binder.bind(TokenLogicProvider, tlp)
                binder.bind_to_provider(EvaluatableDataProvider, _provider)
            inject.clear_and_configure(cfg)
            n += 1
            try:
                asyncio.run(is_valid_expression(expr, setter))
            except BaseException as e:  # noqa
                if isinstance(e, (KeyboardInterrupt, SystemExit)):
                    raise
                bad.append({"expression": expr, "what": f"is_valid_expression raised {type(e).__name__}: {str(e)[:120]}"})
                continue
            # C18: one possible result per combination of {F, U, UNKNOWN} per requirement key and {True, False} per
            # format key - so that many, pairwise distinct
            import re
            nums = {int(k) for k in re.findall(r"\[(\d+)\]", expr)}
            m = sum(1 for k in nums if 1 <= k <= 499 or 2000 <= k <= 2499)
            f = sum(1 for k in nums if 901 <= k <= 999)
            expected_count = 3 ** m * 2 ** f
            if expected_count > 1:
                nontrivial += 1
            if (len(handed) != expected_count or len(set(handed)) != len(handed)) and len(bad) < 5:
                bad.append({"expression": expr, "what": f"the setter was handed {len(handed)} results, {len(set(handed))} "
                                                        f"distinct; there are {expected_count} possible results "
                                                        f"({m} requirement keys, {f} format keys), each to be evaluated once"})
            foreign = [s for s in seen if own.get(s["task"]) is not None and own[s["task"]] != s["data"]]
            if foreign and len(bad) < 5:
                bad.append({"expression": expr, "what": f"{len(foreign)} of {len(seen)} evaluator calls saw data that "
                                                        f"was not handed to the setter in their own task"})
    from bounded.common import configure_inject
    configure_inject()
    ctx.bounded(f"{prop}/is_valid_expression-hands-every-evaluation-its-own-data", n, nontrivial,
                "a case = (AHB expression, yielding pattern of the RC evaluator); non-trivial iff more than one possible "
                "content evaluation result exists; checked: results handed to the setter == the generated ones (each "
                "once), and per task the evaluators see what the setter was given in that task",
                [{"expression": EXPRESSIONS[0]}, {"expression": EXPRESSIONS[-1]}], exhaustive=False,
                bound=f"{len(EXPRESSIONS)} expressions x 3 yielding patterns", seconds=time.time() - t0)
    for i, b in enumerate(bad[:5]):
        ctx.violation(f"bounded/setter-pairing-{i}", f"is_valid_expression({b['expression']!r}): {b['what']}",
                      witness=b, replayed=True, signature=f"setter|{b['expression']}|{b['what'][:60]}",
                      replay_code=("import asyncio, ahbicht.content_evaluation\nfrom bounded.common import *\nconfigure_inject()\n"
                                   "from ahbicht.content_evaluation import is_valid_expression\nseen=[]\n"
                                   f"print(asyncio.run(is_valid_expression({b['expression']!r}, lambda c: (seen.append(c), set_cer(c)))))\n"
                                   "print(len(seen), 'results handed to the setter,', len({str(c) for c in seen}), 'distinct')\n"))
