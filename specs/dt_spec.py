"""ORACLE for C20, written from the property statement only (DESIGN.md Appendix A: eu_offset, strom, gas, fc931).

Pure integer arithmetic: no pytz, no zoneinfo, no datetime (the civil calendar is the proleptic Gregorian calendar
computed with the usual days-from-civil formulas).  An *instant* `u` is an integer number of seconds since
1970-01-01T00:00:00Z, a *written offset* `o` is the number of seconds east of UTC of the notation.

EU rule (directive 2000/84/EC, in this form since 1996): summer time (CEST, UTC+2) from the last Sunday of March
01:00:00 UTC (inclusive) to the last Sunday of October 01:00:00 UTC (exclusive); otherwise CET (UTC+1).
"""
from __future__ import annotations

from typing import List, Tuple

DAY = 86400
CET, CEST = 3600, 7200
FIRST_YEAR, LAST_YEAR = 1996, 2037


# ------------------------------------------------------------------------------------------- civil calendar
def days_from_civil(y: int, m: int, d: int) -> int:
    """Days since 1970-01-01 of the proleptic Gregorian date y-m-d (integer arithmetic only)."""
    y -= m <= 2
    era = y // 400
    yoe = y - era * 400
    doy = (153 * (m + (-3 if m > 2 else 9)) + 2) // 5 + d - 1
    doe = yoe * 365 + yoe // 4 - yoe // 100 + doy
    return era * 146097 + doe - 719468


def civil_from_days(z: int) -> Tuple[int, int, int]:
    """Inverse of days_from_civil."""
    z += 719468
    era = z // 146097
    doe = z - era * 146097
    yoe = (doe - doe // 1460 + doe // 36524 - doe // 146096) // 365
    y = yoe + era * 400
    doy = doe - (365 * yoe + yoe // 4 - yoe // 100)
    mp = (5 * doy + 2) // 153
    d = doy - (153 * mp + 2) // 5 + 1
    m = mp + (3 if mp < 10 else -9)
    return (y + (m <= 2), m, d)


def weekday_sunday0(days: int) -> int:
    """0 = Sunday … 6 = Saturday; 1970-01-01 was a Thursday (4)."""
    return (days + 4) % 7


def last_sunday(year: int, month: int) -> int:
    """Day number (since 1970-01-01) of the last Sunday of a 31-day month (March, October)."""
    assert month in (3, 10)
    last = days_from_civil(year, month, 31)
    return last - weekday_sunday0(last)


# ------------------------------------------------------------------------------------------- EU rule
def summer_start(year: int) -> int:
    return last_sunday(year, 3) * DAY + 3600


def summer_end(year: int) -> int:
    return last_sunday(year, 10) * DAY + 3600


def in_summer_time(u: int) -> bool:
    year = civil_from_days(u // DAY)[0]
    return summer_start(year) <= u < summer_end(year)


def eu_offset(u: int) -> int:
    """UTC offset of German local time at instant u by the EU rule (meaningful for 1996 ≤ year)."""
    return CEST if in_summer_time(u) else CET


def strom(u: int) -> bool:
    """Instant u is 00:00:00 German local time."""
    return (u + eu_offset(u)) % DAY == 0


def gas(u: int) -> bool:
    """Instant u is 06:00:00 German local time."""
    return (u + eu_offset(u)) % DAY == 21600


def fc931(o: int) -> bool:
    """931 is fulfilled exactly if the datetime is written with a zero UTC offset (`Z` counts as zero)."""
    return o == 0


def switch_instants(first_year: int = FIRST_YEAR, last_year: int = LAST_YEAR) -> List[Tuple[int, int]]:
    """[(instant of the switch, offset in force from that instant on)], ascending; 84 entries for 1996–2037."""
    out: List[Tuple[int, int]] = []
    for y in range(first_year, last_year + 1):
        out.append((summer_start(y), CEST))
        out.append((summer_end(y), CET))
    return out


SWITCHES: List[Tuple[int, int]] = switch_instants()
assert len(SWITCHES) == 84

U_MIN = days_from_civil(FIRST_YEAR, 1, 1) * DAY          # 1996-01-01T00:00:00Z
U_MAX = days_from_civil(LAST_YEAR + 1, 1, 1) * DAY - 1   # 2037-12-31T23:59:59Z


def local_to_instants(wall: int) -> List[int]:
    """All instants u whose German local wall clock (seconds since 1970-01-01T00:00:00 *local*) is `wall`:
    none inside the spring gap, two inside the autumn overlap, one otherwise."""
    return [wall - off for off in (CEST, CET) if eu_offset(wall - off) == off]


# ------------------------------------------------------------------------------------------- notation
def fmt_offset(o: int) -> str:
    sign = "-" if o < 0 else "+"
    a = abs(o)
    assert a % 60 == 0 and a < DAY
    return f"{sign}{a // 3600:02d}:{a % 3600 // 60:02d}"


def render(u: int, o: int, zulu: bool = False) -> str:
    """ISO-8601 notation of instant u with written offset o (`Z` instead of +00:00 if zulu; then o must be 0)."""
    assert not zulu or o == 0
    w = u + o
    y, m, d = civil_from_days(w // DAY)
    s = w % DAY
    return f"{y:04d}-{m:02d}-{d:02d}T{s // 3600:02d}:{s % 3600 // 60:02d}:{s % 60:02d}" + ("Z" if zulu else fmt_offset(o))


#: the 8 notations of the task: (label, written offset in seconds, zulu)
NOTATIONS: List[Tuple[str, int, bool]] = [
    ("Z", 0, True), ("+00:00", 0, False), ("+01:00", 3600, False), ("+02:00", 7200, False),
    ("-08:00", -28800, False), ("+05:30", 19800, False), ("+14:00", 50400, False), ("-12:00", -43200, False),
    # offsets that are no multiple of a quarter hour (historical local mean times, e.g. +00:53:28 Berlin before 1893)
    ("+00:53", 3180, False), ("-05:17", -19020, False), ("+05:45", 20700, False), ("+23:59", 86340, False),
]


def _selftest() -> None:
    from datetime import date
    for y, m, d in [(1970, 1, 1), (1996, 2, 29), (2000, 2, 29), (2037, 12, 31), (1, 1, 1), (9999, 12, 31), (2100, 3, 1)]:
        n = days_from_civil(y, m, d)
        assert n == date(y, m, d).toordinal() - date(1970, 1, 1).toordinal(), (y, m, d)
        assert civil_from_days(n) == (y, m, d)
        assert weekday_sunday0(n) == date(y, m, d).isoweekday() % 7
    # well-known switch dates
    assert civil_from_days(last_sunday(2022, 3)) == (2022, 3, 27) and civil_from_days(last_sunday(2022, 10)) == (2022, 10, 30)
    assert civil_from_days(last_sunday(1996, 3)) == (1996, 3, 31) and civil_from_days(last_sunday(1996, 10)) == (1996, 10, 27)
    assert civil_from_days(last_sunday(2037, 3)) == (2037, 3, 29) and civil_from_days(last_sunday(2037, 10)) == (2037, 10, 25)
    assert render(0, 0, True) == "1970-01-01T00:00:00Z" and render(0, -28800) == "1969-12-31T16:00:00-08:00"
    assert render(1640991600, 3600) == "2022-01-01T00:00:00+01:00" and strom(1640991600) and not gas(1640991600)
    assert gas(1640991600 + 21600) and eu_offset(summer_start(2022)) == CEST and eu_offset(summer_start(2022) - 1) == CET
    assert eu_offset(summer_end(2022)) == CET and eu_offset(summer_end(2022) - 1) == CEST


_selftest()
