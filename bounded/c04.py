"""C04 (bounded stand-in, API level): requirement-constraint evaluation == documented compositional semantics.

For every in-domain, valid expression tree within the bound and every assignment of FULFILLED/UNFULFILLED/UNKNOWN to
its requirement keys, the REAL public API (`parse_expression_including_unresolved_subexpressions` ->
`evaluate_ahb_expression_tree`, content-evaluation-result based evaluators) must return
`(requirement_constraints_fulfilled, requirement_is_conditional) == outcome(spec_cf(tree, asg))`.
The oracle (`specs.treesem`) is written from the property statement.

This module also hosts the worker shared by C05–C07 (`eval_item`): one item = one expression text with a list of
(requirement assignment, format-constraint truth assignment) pairs, evaluated by the real code.
"""
from __future__ import annotations

import random
import time
from typing import Dict, List, Optional, Sequence, Tuple

from bounded import common as bc
from specs import treesem as ts

PROP = "C04"


# ---------------------------------------------------------------------------------------------- shared worker
def make_item(tree: ts.Tree, cases: Sequence[Tuple[str, str]], text: Optional[str] = None):
    """(text, rc_keys, fc_keys, hint_keys, cases); cases = [(rc_word, fc_word)], words aligned with the sorted keys"""
    return (text if text is not None else ts.render(tree), tuple(ts.keys_of(tree, ts.RC)),
            tuple(ts.keys_of(tree, ts.FC)), tuple(ts.keys_of(tree, ts.HINT)), tuple(cases))


def build_cer(rc_keys, fc_keys, hint_keys, rc_word: str, fc_word: str):
    return bc.make_cer(rc=ts.decode_asg(rc_keys, rc_word), fc=ts.decode_truth(fc_keys, fc_word),
                       hints=bc.hints_for(hint_keys))


async def _eval_one(text: str, cer):
    from ahbicht.expressions import InvalidExpressionError
    try:
        res = await bc.evaluate_async("Muss " + text, cer)
    except InvalidExpressionError as err:  # a BaseException
        return ("invalid", str(getattr(err, "error_message", "")))
    except Exception as err:  # noqa: BLE001  reported to the caller, which decides what it means for its clause
        return ("exc", f"{type(err).__name__}: {err}"[:300])
    rc, fc = res.requirement_constraint_evaluation_result, res.format_constraint_evaluation_result
    return ("ok", rc.requirement_constraints_fulfilled, rc.requirement_is_conditional,
            rc.format_constraints_expression, fc.format_constraints_fulfilled, fc.error_message)


async def _eval_item_async(item):
    text, rc_keys, fc_keys, hint_keys, cases = item
    out = []
    for rc_word, fc_word in cases:
        out.append(await _eval_one(text, build_cer(rc_keys, fc_keys, hint_keys, rc_word, fc_word)))
    return out


def eval_item(item):
    """runs the real code on every case of the item; returns one result tuple per case:
    ("ok", fulfilled, conditional, fc_expression, fc_fulfilled, fc_error_message) | ("invalid", msg) | ("exc", msg)"""
    return bc.run(_eval_item_async(item))


def replay_snippet(text: str, rc_keys, fc_keys, hint_keys, rc_word: str, fc_word: str) -> str:
    rc = ", ".join(f'"{k}": {c}' for k, c in zip(rc_keys, rc_word))
    fc = ", ".join(f'"{k}": {c == "1"}' for k, c in zip(fc_keys, fc_word))
    return ("from bounded.common import *\nconfigure_inject()\n"
            f"print(evaluate({('Muss ' + text)!r}, make_cer(rc={{{rc}}}, fc={{{fc}}}, "
            f"hints=hints_for({list(hint_keys)!r}))))")


def rc_words(tree: ts.Tree) -> List[str]:
    keys = ts.keys_of(tree, ts.RC)
    return [ts.encode_asg(keys, a) for a in ts.assignments(keys, (ts.F, ts.U, ts.K))]


def fc_words(tree: ts.Tree) -> List[str]:
    keys = ts.keys_of(tree, ts.FC)
    return [ts.encode_truth(keys, a) for a in ts.assignments(keys, (True, False))]


def rotating_fc_word(n_fc: int, i: int) -> str:
    """a deterministic, varying truth assignment for clauses that do not quantify over format-constraint truth"""
    return "".join("1" if (i >> j) & 1 == 0 else "0" for j in range(n_fc))


def pmap_until(fn, items, deadline: float, chunk: int = 6000):
    """bc.pmap over a prefix of `items`: no new chunk is started after `deadline` (time.time()).  The first chunk is
    always run.  Callers zip the (possibly shorter) result list with their inputs and must not claim exhaustiveness
    when it is shorter."""
    out = []
    for i in range(0, len(items), chunk):
        if out and time.time() > deadline:
            break
        out.extend(bc.pmap(fn, items[i:i + chunk]))
    return out


def deadline_for(tier: str, t_start: float) -> float:
    """wall-clock budget of one property (README: quick <= ~40 s, thorough <= ~8 min), with a margin for reporting"""
    return t_start + (25.0 if tier == "quick" else 380.0)


def cut_note(n_done: int, n_all: int) -> str:
    return "" if n_done == n_all else f" [time budget reached: only the first {n_done} of {n_all} items were run]"


class Violations:
    """keeps the smallest few failing inputs of one clause; each is re-run on the real code before it is reported"""

    def __init__(self, ctx, clause: str, limit: int = 5):
        self.ctx, self.clause, self.limit, self.items = ctx, clause, limit, []

    def add(self, size: int, signature: str, message: str, witness: dict, recheck, replay_code: str, history=None):
        """`recheck()` re-runs the single failing call; `history()` (optional) re-runs the whole sequence of calls the
        failing one was part of (one item = one sequence in one process): a failure that only shows after earlier calls
        is a failure all the same - every property here is stated for every history"""
        self.items.append((size, signature, message, witness, recheck, replay_code, history))

    def __len__(self):
        return len(self.items)

    def flush(self) -> int:
        reported = 0
        attempts = 0
        for size, sig, msg, wit, recheck, code, history in sorted(self.items, key=lambda x: (x[0], x[1])):
            if reported >= self.limit or attempts >= 40:
                break
            attempts += 1
            # the sequence first, in a forked child (a state in which none of these calls has happened yet)
            in_sequence = bc.in_fresh_child(history) if history is not None else None
            again = recheck()  # the single call, re-run on the real code in this process: None = not reproduced
            if again is None and in_sequence is not None:
                again = in_sequence
                msg += (" - ONLY as part of a sequence: the same call on its own gives the expected result, after "
                        "the preceding evaluations of the same expression in the same process it does not "
                        "(history-dependent behaviour)")
                wit = dict(wit, history="all cases of this expression evaluated one after the other in one process")
                code += "\n# history-dependent: evaluate ALL cases of this expression one after the other, see witness"
            if again is None:
                self.ctx.note(f"{self.clause}: failing input {sig} did not reproduce on re-run (not reported)")
                continue
            wit = dict(wit, observed_on_replay=again)
            reported += 1  # one replay file per witness (the report layer names the file after the obligation)
            self.ctx.violation(obligation=f"bounded/{self.clause}/witness-{reported}", message=msg, witness=wit,
                               replayed=True, signature=sig, replay_code=code)
        return reported


# ---------------------------------------------------------------------------------------------- the caller's tree
_SAME_TREE = [("[1] U [2]", {"1": "F", "2": "F"}, {"1": "F", "2": "U"}),
              ("[1][901] U [2][902] O [3][903]", {"1": "F", "2": "F", "3": "F"}, {"1": "F", "2": "F", "3": "U"}),
              ("([1] O [2]) X [3]", {"1": "U", "2": "U", "3": "F"}, {"1": "F", "2": "U", "3": "F"}),
              ("[1] U [501]", {"1": "F"}, {"1": "U"}), ("[2][901]", {"2": "F"}, {"2": "U"}),
              ("[1] O [2] U [3][902]", {"1": "U", "2": "F", "3": "F"}, {"1": "U", "2": "F", "3": "U"})]


def same_tree_twice(index: int) -> dict:
    """the observation points of C04 / C07 take a parsed TREE: evaluating the same Tree object a second time, under
    another assignment, has to give what a newly parsed tree gives (and the caller's tree is still the parse of its
    expression).  -> {"failing": bool, ...}"""
    from ahbicht.expressions.condition_expression_parser import parse_condition_expression_to_tree
    from ahbicht.expressions.requirement_constraint_expression_evaluation import requirement_constraint_evaluation
    from ahbicht.models.condition_nodes import ConditionFulfilledValue as V
    text, first, second = _SAME_TREE[index]
    word = {"F": V.FULFILLED, "U": V.UNFULFILLED}
    fcs = {"901": True, "902": False, "903": True}

    def cer(asg):
        return bc.make_cer(rc={k: word[v] for k, v in asg.items()}, fc=fcs, hints=bc.hints_for(["501"]))

    async def go():
        def plain(r):
            return [r.requirement_constraints_fulfilled, r.requirement_is_conditional, r.format_constraints_expression, r.hints]
        tree = parse_condition_expression_to_tree(text)
        bc.set_cer(cer(first))
        await requirement_constraint_evaluation(tree)
        bc.set_cer(cer(second))
        again = plain(await requirement_constraint_evaluation(tree))
        fresh = plain(await requirement_constraint_evaluation(parse_condition_expression_to_tree(text)))
        return again, fresh, tree == parse_condition_expression_to_tree(text)

    bc.configure_inject()
    try:
        again, fresh, untouched = bc.run(go())
    except BaseException as e:  # noqa
        return {"failing": True, "expression": text, "first": first, "second": second,
                "problem": f"the second evaluation of the same tree raised {type(e).__name__}: {str(e)[:160]}"}
    if again != fresh:
        return {"failing": True, "expression": text, "first": first, "second": second, "same_tree_again": again,
                "newly_parsed_tree": fresh, "callers_tree_untouched": untouched,
                "problem": f"evaluating the SAME tree object again under {second} gives [fulfilled, conditional, fc expression, "
                           f"hints] = {again}, a newly parsed tree gives {fresh}"}
    return {"failing": False, "expression": text}


def run_same_tree(ctx, clause_of: str) -> None:
    """clause_of: 'C04' judges the outcome, 'C07' the format-constraint expression - both come from the same calls"""
    t0 = time.time()
    n_bad = 0
    for i in range(len(_SAME_TREE)):
        r = bc.in_fresh_child(lambda i=i: same_tree_twice(i))
        if not r or not r["failing"]:
            continue
        relevant = "raised" in r["problem"] or (r["same_tree_again"][:2] != r["newly_parsed_tree"][:2] if clause_of == "C04"
                                                else r["same_tree_again"][2] != r["newly_parsed_tree"][2])
        if not relevant or n_bad >= 2:
            continue
        again = bc.in_fresh_child(lambda i=i: same_tree_twice(i))
        if not again or not again["failing"]:
            continue
        n_bad += 1
        ctx.violation(obligation=f"bounded/same-tree-evaluated-twice/{n_bad}", message=f"{again['expression']!r}: {again['problem']}",
                      witness=again, replayed=True, signature=f"same-tree|{again['expression']}",
                      replay_code=f"from bounded import c04\nprint(c04.same_tree_twice({i}))")
    ctx.bounded("the same Tree object evaluated twice under different assignments", evaluations=3 * len(_SAME_TREE),
                distinct_nontrivial=len(_SAME_TREE), rule="distinct (expression, first assignment, second assignment)",
                samples=[{"expression": t, "first": a, "second": b} for t, a, b in _SAME_TREE[:2]], exhaustive=True,
                bound=f"{len(_SAME_TREE)} expressions, each in a forked child", seconds=time.time() - t0)


# ---------------------------------------------------------------------------------------------- C04 proper
def _expected(tree: ts.Tree, rc_keys, rc_word: str):
    return ts.outcome(ts.spec_cf(tree, ts.decode_asg(rc_keys, rc_word)))


def check_trees(ctx, name: str, trees: List[ts.Tree], exhaustive: bool, bound: str, deadline: float) -> None:
    t0 = time.time()
    bc.configure_inject()
    items = []
    for i, t in enumerate(trees):
        n_fc = len(ts.keys_of(t, ts.FC))
        items.append(make_item(t, [(w, rotating_fc_word(n_fc, i + j)) for j, w in enumerate(rc_words(t))]))
    results = pmap_until(eval_item, items, deadline)
    exhaustive, bound = exhaustive and len(results) == len(items), bound + cut_note(len(results), len(items))
    viol = Violations(ctx, name)
    evaluations, distinct, seen, samples, candidates = 0, 0, set(), [], 0
    for t, item, res in zip(trees, items, results):
        text, rc_keys, fc_keys, hint_keys, cases = item
        evaluations += len(cases)
        if ts.n_ops(t) >= 1 and text not in seen:
            seen.add(text)
            distinct += len(set(cases))
        for (rc_word, fc_word), r in zip(cases, res):
            exp = _expected(t, rc_keys, rc_word)
            got = (r[1], r[2]) if r[0] == "ok" else r
            if ts.n_ops(t) >= 2 and "K" in rc_word:
                candidates += 1
            if len(samples) < 5 and ts.n_ops(t) >= 2 and "K" in rc_word and candidates % 997 == 1:
                samples.append({"expression": text, "rc": dict(zip(rc_keys, rc_word)), "outcome": list(exp)})
            if got != exp:
                def recheck(item=item, rc_word=rc_word, fc_word=fc_word, exp=exp):
                    r2 = eval_item((item[0], item[1], item[2], item[3], ((rc_word, fc_word),)))[0]
                    g2 = (r2[1], r2[2]) if r2[0] == "ok" else r2
                    return None if g2 == exp else list(g2)

                def history(item=item, rc_word=rc_word, fc_word=fc_word, exp=exp):
                    res2 = eval_item(item)
                    for (w1, w2), r2 in zip(item[4], res2):
                        if (w1, w2) == (rc_word, fc_word):
                            g2 = (r2[1], r2[2]) if r2[0] == "ok" else r2
                            return None if g2 == exp else list(g2)
                    return None
                viol.add(len(text), f"{text}|{rc_word}|{fc_word}",
                         f"outcome of {text!r} under {dict(zip(rc_keys, rc_word))} is {got}, the compositional "
                         f"semantics gives {exp}",
                         {"expression": "Muss " + text, "rc": dict(zip(rc_keys, rc_word)),
                          "fc": dict(zip(fc_keys, fc_word)), "expected": list(exp), "observed": list(got)},
                         recheck, replay_snippet(text, rc_keys, fc_keys, hint_keys, rc_word, fc_word), history=history)
    viol.flush()
    ctx.bounded(name, evaluations, distinct,
                "distinct (expression text, requirement assignment) pairs whose tree has at least one operator",
                samples, exhaustive=exhaustive, bound=bound, seconds=time.time() - t0)


def run(ctx, tier: str, seed: int) -> None:
    ts.self_check()
    ctx.trust("A-LARK-RESOLVE (grouping of the rendered text is the tree it was rendered from: C01)")
    ctx.assume("content-evaluation-result based evaluators return the assigned state of every requirement key")
    rng = random.Random(seed)
    deadline = deadline_for(tier, time.time())
    leaves = ts.default_leaves()
    max_n = 3 if tier == "quick" else 4
    by_n = ts.enumerate_trees(max_n, leaves)
    small = [t for n in range(1, 4) for t in by_n[n] if ts.valid(t)]
    check_trees(ctx, "outcome==spec/<=3-leaves", small, True,
                "all valid in-domain trees with <=3 leaves over keys 1,2,3/501,502/901,902 x all 3^k assignments",
                deadline)
    if tier != "quick":
        four = [t for t in by_n[4] if ts.valid(t)]
        budget = 120000
        exhaustive = len(four) <= budget
        if not exhaustive:
            four = rng.sample(four, budget)
        else:
            rng.shuffle(four)  # so that a prefix cut off by the time budget is a seeded sample
        check_trees(ctx, "outcome==spec/4-leaves", four, exhaustive,
                    f"{'all' if exhaustive else 'seeded sample of ' + str(budget)} valid in-domain trees with 4 leaves "
                    "x all 3^k assignments", deadline)
    run_same_tree(ctx, "C04")
