"""Confirm a seeded change (patch.diff + demo.py from an independent sub-agent) in a scratch copy of /repo, then run our
checks against it.  usage: eval_seed.py <Cxx> [extra props ...]     (reads /tmp/seed_out/<Cxx>/, writes /verif/seeded/<Cxx>/)"""
import json, os, shutil, subprocess, sys, tempfile, time

pid = sys.argv[1]
props = [pid[:3]] + sys.argv[2:]   # C18x, C03d ... = further changes for C18, C03
# a second / third round of seeds: SEED_SRC=/tmp/seed_out2 SEED_SUFFIX=b  ->  /verif/seeded/<Cxx>b/
src = f"{os.environ.get('SEED_SRC', '/tmp/seed_out')}/{pid}"
out = f"/verif/seeded/{pid}{os.environ.get('SEED_SUFFIX', '')}"
d = tempfile.mkdtemp(prefix=f"seedchk_{pid}_")
rec = {"property": pid[:3], "ran": []}


def run(cmd, cwd, env=None, timeout=1200):
    e = dict(os.environ)
    e.update(env or {})
    r = subprocess.run(cmd, cwd=cwd, env=e, capture_output=True, text=True, timeout=timeout, shell=isinstance(cmd, str))
    return r.returncode, (r.stdout + r.stderr)


try:
    subprocess.run(["git", "-C", "/repo", "worktree", "add", "-q", "--detach", d + "/wt", "HEAD"], check=True)
    wt = d + "/wt"
    env = {"PYTHONPATH": wt + "/src"}
    rc, o = run(["git", "apply", "--check", src + "/patch.diff"], wt)
    rec["patch_applies"] = rc == 0
    if rc != 0:
        rec["ran"].append("git apply --check failed: " + o[-300:])
        raise SystemExit
    # demo on unchanged tree
    rc0, o0 = run(["/venv/bin/python", src + "/demo.py"], wt, env)
    rec["demo_exit_unchanged"] = rc0
    run(["git", "apply", src + "/patch.diff"], wt)
    rc1, o1 = run(["/venv/bin/python", src + "/demo.py"], wt, env)
    rec["demo_exit_with_change"] = rc1
    rec["demo_output_with_change"] = o1[-400:]
    rct, ot = run("/venv/bin/python -m pytest -q -p no:cacheprovider --timeout=900 unittests 2>&1 | tail -1", wt, env)
    rec["tests_with_change"] = ot.strip()[-80:]
    rec["ran"] += [f"demo.py unchanged -> exit {rc0}", f"demo.py with change -> exit {rc1}", f"pytest with change -> {ot.strip()[-60:]}"]
    confirmed = rc0 == 0 and rc1 == 1 and " passed" in ot and "failed" not in ot
    rec["confirmed"] = confirmed
    # our checks against the changed tree
    rec["checks"] = {}
    for p in props:
        t0 = time.time()
        rc, o = run(["/verif/vcheck", p, "--tier", "quick"], "/verif", {"AHBICHT_REPO": wt, "VERIF_EVIDENCE_DIR": d + "/evidence"})
        lines = [l for l in o.splitlines() if l.startswith(("VIOLATION", "  obligation", "UNDECIDED", "SUMMARY", "CHECKER"))]
        rec["checks"][p] = {"exit": rc, "seconds": round(time.time() - t0, 1), "lines": lines[:12]}
    rec["detected_by"] = [p for p, r in rec["checks"].items() if r["exit"] == 1]
finally:
    subprocess.run(["git", "-C", "/repo", "worktree", "remove", "--force", d + "/wt"], capture_output=True)
    shutil.rmtree(d, ignore_errors=True)
    subprocess.run(["git", "checkout", "--", "evidence"], cwd="/verif", capture_output=True)
    shutil.rmtree(f"/verif/replays/{pid[:3]}", ignore_errors=True)
if rec.get("confirmed"):
    os.makedirs(out, exist_ok=True)
    shutil.copy(src + "/patch.diff", out + "/patch.diff")
    shutil.copy(src + "/demo.py", out + "/demo.py")
    meta = json.load(open(src + "/meta.json")) if os.path.exists(src + "/meta.json") else {}
    meta["confirmed_by_us"] = {k: rec[k] for k in ("demo_exit_unchanged", "demo_exit_with_change", "tests_with_change", "ran")}
    meta["our_checks"] = rec["checks"]
    meta["detected_by"] = rec["detected_by"]
    json.dump(meta, open(out + "/meta.json", "w"), indent=1)
print(json.dumps({k: rec.get(k) for k in ("property", "patch_applies", "demo_exit_unchanged", "demo_exit_with_change", "tests_with_change", "confirmed", "detected_by")}))
for p, r in rec.get("checks", {}).items():
    print(p, "exit", r["exit"], r["seconds"], "s")
    for l in r["lines"][:6]:
        print("   ", l[:260])
