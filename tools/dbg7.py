import sys, z3
from checks.common import load_sidecars, verifier
from pyvc.contracts import REGISTRY
load_sidecars()
v=verifier()
key=[t for t in REGISTRY if sys.argv[1] in t][0]
import pyvc.vc as VC
orig=VC.Verifier.prove
def prove(self, pc, goal):
    r=orig(self, pc, goal)
    if r[0]!="unsat":
        print("=== NOT PROVED", r[0])
        for a in self.ex.global_axioms[-8:]: print("  GA:", a)
        for c in pc: print("  PC:", z3.simplify(c))
        print("  GOAL:", z3.simplify(goal))
    return r
VC.Verifier.prove=prove
obl=v.verify(key)
for o in obl: print(o.name,o.status)
