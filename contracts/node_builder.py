"""Contract of ConditionNodeBuilder as seen by requirement_constraint_evaluation (C04): the input nodes are
well-formed leaf nodes, i.e. requirement constraints carry the evaluator's value (never NEUTRAL is the quantifier of
C04), hints and unevaluated format constraints are NEUTRAL (class defaults)."""
import z3

from contracts.rc_transformer import CANDS, node
from pyvc.contracts import DictOf, Inst, Str, contract

T = "ahbicht.condition_node_builder:ConditionNodeBuilder."


def leaf_nodes():
    def val(ex, st, name, i):
        ref = node().make(ex, st, name)
        st.assume(st.heap[ref.oid].kind != CANDS.index("EvaluatedComposition"))
        return ref
    return DictOf(lambda ex, st, name, i: Str().make(ex, st, name), val)


@contract(T + "requirement_content_evaluation_for_all_condition_keys", prop=["C04", "C12"])
class AllConditionKeys:
    """modular view: a mapping from keys to well-formed leaf nodes, or whatever the user-supplied evaluators raise"""
    params = dict(self=Inst("ConditionNodeBuilder"))
    raises = {"Exception": None, "NotImplementedError": None}
    returns = leaf_nodes()


@contract(T + "__init__", prop=["C04"])
class BuilderInit:
    """modular view of the constructor: stores the keys (categorisation is C18's contract)"""
    params = dict(self=Inst("ConditionNodeBuilder"))
    raises = {"ValueError": None, "NotImplementedError": None}

    def hook(ex, st, bound):
        from pyvc.values import sv_none
        st.heap[bound["self"].oid].fields["condition_keys"] = bound["condition_keys"]
        outs = []
        for k in ("ValueError", "NotImplementedError"):
            outs.append(ex.raise_(st.fork(), k, None))
        outs.append((st, sv_none()))
        return outs
