"""C15 (bounded stand-in) – each free-text data element's format constraints see only that element's own input.

Runs the REAL `validate_segment` / `validate_deep_anwendungshandbuch` on segments (and a deep AHB with a group, two
segments and a nested group) whose free-text data elements carry DISTINCT entered inputs.  The format-constraint
evaluator *echoes* the input it was given (`bounded.sched.SchedFcEvaluator(echo=True)`: verdict and message are
functions of (key, input) only), requirement constraints / format constraints are evaluated by gated evaluators and a
controller forces the completion order (`bounded.sched`).

Checked for every explored schedule and for the run in which nothing yields (clause ``own-input``):

1. *equals validating the element on its own*: the result reported for every element equals the result of
   `validate_data_element_freetext(<fresh copy of the element>, <requirement of its segment>, flag)` run ALONE with
   evaluators that never yield;
2. *evaluated against its own input* (independent of the code under test): every `<...>` echoed in an element's
   `format_error_message` is that element's entered input; where the element's expression template has a known
   meaning, `format_validation_fulfilled` equals the hand-written verdict for the element's own input; the multiset
   of (format constraint key, input seen) over all evaluator calls equals the multiset expected from the templates
   (no constraint was ever evaluated against another element's input, `None` or a stale value), and the context
   variable still holds the same input after the evaluator resumed from its gate.

Bound: <= 4 free-text elements per segment (<= 5 in the deep AHB), the expression templates of `TEMPLATES`, inputs
of `INPUTS`; rounds mode: all permutations of every round when their product is within the limit (<= 24 per round
for the plain templates), seeded samples otherwise; steps mode: seeded samples.  CPython's default event loop only.
"""
from __future__ import annotations

import random
import re
import time
from collections import Counter
from typing import Any, Dict, List, Optional, Tuple

import ahbicht.content_evaluation  # noqa: F401
from ahbicht.models.validation_values import RequirementValidationValue
from ahbicht.validation.validation import (
    validate_data_element_freetext,
    validate_deep_anwendungshandbuch,
    validate_segment,
)
from maus.models.anwendungshandbuch import AhbMetaInformation, DeepAnwendungshandbuch
from maus.models.edifact_components import DataElementFreeText, Segment, SegmentGroup

from bounded import sched
from bounded.common import F, U, make_cer, set_cer
from bounded.sched import echo_verdict, pmap

MAX_VIOLATIONS = 5
RC_TABLE = {"1": F, "2": F, "3": U, "4": U, "5": F}
INPUTS: List[Optional[str]] = ["A-okall", "B-no", "C-ok950", "D-ok951", "E-ok952-ok950", "", None, "F okall x", "G"]

# expression templates: (expression, format constraint keys evaluated under RC_TABLE in evaluation order or None if
# unknown, verdict as a function of the own input or None if not specified by hand)
TEMPLATES: List[Tuple[str, Optional[List[str]], Any]] = [
    ("X [950]", ["950"], lambda t: echo_verdict("950", t)),
    ("X [2][950]", ["950"], lambda t: echo_verdict("950", t)),
    ("Muss [2][951]", ["951"], lambda t: echo_verdict("951", t)),
    ("X [950] U [951]", ["950", "951"], lambda t: echo_verdict("950", t) and echo_verdict("951", t)),
    ("X [2][950] U [5][952]", ["950", "952"], lambda t: echo_verdict("950", t) and echo_verdict("952", t)),
    ("X [2][950] O [3][951]", None, None),
    ("Muss [3][950] Soll [2][951]", ["951"], lambda t: echo_verdict("951", t)),
    ("Muss [4][950]", [], lambda t: True),  # requirement not fulfilled: nothing to check
    ("X", [], lambda t: True),
    ("Muss [2][950] U [501]", ["950"], lambda t: echo_verdict("950", t)),
    ("Kann [5][952] X [3][951]", None, None),
    ("X [1P][950]", ["950"], lambda t: echo_verdict("950", t)),  # package resolver gate between task start and set()
]
PACKAGES = {"1P": "[2] U [5]"}
_ECHO = re.compile(r"rejects <(.*?)>")


# ------------------------------------------------------------------------------------------------ scenarios
def _element(index: int, template: int, text: Optional[str]) -> DataElementFreeText:
    return DataElementFreeText(discriminator=f"E{index}", ahb_expression=TEMPLATES[template][0], entered_input=text,
                               data_element_id=f"{1000 + index}")


def build(scenario: dict):
    """scenario: {"shape": "segment" | "deep", "segment_expression": str, "elements": [(template, input), ...],
    "soll": bool}.  Returns (object to validate, {discriminator of element: (template, input, discriminator of its
    segment)})"""
    elements = [_element(i, t, text) for i, (t, text) in enumerate(scenario["elements"])]
    index = {}
    if scenario["shape"] == "segment":
        segment = Segment(discriminator="S0", ahb_expression=scenario["segment_expression"], data_elements=elements)
        for i, (t, text) in enumerate(scenario["elements"]):
            index[f"E{i}"] = (t, text, "S0")
        return segment, index
    # deep AHB: group SG1 with two segments and a nested group with a third segment
    cut1 = max(1, len(elements) // 2)
    cut2 = max(cut1 + 1, len(elements) - 1) if len(elements) > 2 else len(elements)
    parts = [elements[:cut1], elements[cut1:cut2], elements[cut2:]]
    for s, part in enumerate(parts):
        for element in part:
            i = int(element.discriminator[1:])
            index[element.discriminator] = (*scenario["elements"][i], f"S{s}")
    segments = [Segment(discriminator=f"S{s}", ahb_expression=["Muss [1]", scenario["segment_expression"], "X"][s],
                        data_elements=part) for s, part in enumerate(parts)]
    inner = SegmentGroup(discriminator="SG2", ahb_expression="Muss [5]", segments=[segments[2]], segment_groups=[]) \
        if parts[2] else None
    root = SegmentGroup(discriminator="SG1", ahb_expression="Muss [1] U [2]", segments=segments[:2],
                        segment_groups=[inner] if inner else [])
    return DeepAnwendungshandbuch(meta=AhbMetaInformation(pruefidentifikator="11042"), lines=[root]), index


def _canon(validation_result: Any) -> dict:
    return {k: (getattr(validation_result, k).value if hasattr(getattr(validation_result, k), "value")
                else getattr(validation_result, k))
            for k in ("requirement_validation", "format_validation_fulfilled", "format_error_message", "hints",
                      "data_element_data_type") if hasattr(validation_result, k)}


def _whole_coro(scenario: dict):
    cer = make_cer(rc=RC_TABLE, hints={"501": "Hinweis 501"}, packages=PACKAGES)

    async def run():
        set_cer(cer)
        target, _ = build(scenario)
        if scenario["shape"] == "segment":
            results = await validate_segment(target, None, scenario["soll"])
        else:
            results = await validate_deep_anwendungshandbuch(target, scenario["soll"])
        return {r.discriminator: _canon(r.validation_result) for r in results}

    return run


def _alone_coro(scenario: dict, discriminator: str, segment_requirement: str):
    cer = make_cer(rc=RC_TABLE, hints={"501": "Hinweis 501"}, packages=PACKAGES)
    _, index = build(scenario)
    template, text, _ = index[discriminator]

    async def run():
        set_cer(cer)
        element = _element(int(discriminator[1:]), template, text)
        result = await validate_data_element_freetext(element, RequirementValidationValue(segment_requirement),
                                                      scenario["soll"])
        return _canon(result.validation_result)

    return run


# ------------------------------------------------------------------------------------------------ the check of one run
def problems_of(scenario: dict, run: sched.Run, alone_cache: Dict[Tuple[str, str], Any]) -> List[dict]:
    """all deviations of one (scheduled or reference) run from the statement"""
    if run.exc is not None:
        # the scenarios never make validation raise (no UNKNOWN values, complete tables)
        return [{"what": "raised", "observed": run.exc, "expected": "a list of validation results"}]
    _, index = build(scenario)
    out = []
    expected_calls: Counter = Counter()
    calls_known = True
    for discriminator, (template, text, segment) in index.items():
        expression, fc_keys, verdict = TEMPLATES[template]
        if discriminator not in run.value:
            continue  # the segment is forbidden: its elements are not validated (C13), nothing to compare
        got = run.value[discriminator]
        # 1. equals validating the element on its own
        segment_requirement = run.value[segment]["requirement_validation"]
        key = (discriminator, segment_requirement)
        if key not in alone_cache:
            alone_cache[key] = sched.run_reference(_alone_coro(scenario, discriminator, segment_requirement)).outcome()
        if ("returned", got) != alone_cache[key]:
            out.append({"what": "differs from validating the element on its own", "element": discriminator,
                        "expression": expression, "input": text, "observed": got, "expected": alone_cache[key]})
        # 2. own input, independent of the code
        echoed = _ECHO.findall(got.get("format_error_message") or "")
        if any(e != str(text) for e in echoed):
            out.append({"what": "format constraint judged a foreign input", "element": discriminator,
                        "expression": expression, "input": text, "observed": got.get("format_error_message"),
                        "expected": f"only <{text}> echoed"})
        if verdict is not None and got["format_validation_fulfilled"] != bool(verdict(text)):
            out.append({"what": "verdict is not the verdict for the element's own input", "element": discriminator,
                        "expression": expression, "input": text, "observed": got["format_validation_fulfilled"],
                        "expected": bool(verdict(text))})
        if fc_keys is None:
            calls_known = False
        else:
            expected_calls.update((k, text) for k in fc_keys)
    fc_calls = [o for o in run.obs if o["kind"] == "fc"]
    inputs = {text for (_, text, _) in index.values()}
    for o in fc_calls:
        if o["input"] not in inputs or o["ctx_after_gate"] != o["input"]:
            out.append({"what": "evaluator call saw an input no element carries / context variable changed while "
                                "waiting", "observed": {k: o[k] for k in ("key", "input", "ctx_after_gate")},
                        "expected": sorted(map(repr, inputs))})
            break
    if calls_known and not out:
        got_calls = Counter((o["key"], o["input"]) for o in fc_calls)
        if got_calls != expected_calls:
            out.append({"what": "format constraints were not evaluated once per (key, own input)",
                        "observed": sorted(map(repr, got_calls.items())),
                        "expected": sorted(map(repr, expected_calls.items()))})
    return out


def scenarios(tier: str, rng: random.Random) -> List[dict]:
    plain = [1, 1, 1, 1]
    fixed = [
        {"shape": "segment", "segment_expression": "Muss [1]", "elements": [(1, INPUTS[i]) for i in range(3)], "soll": True},
        {"shape": "segment", "segment_expression": "Muss [1]", "elements": [(t, INPUTS[i]) for i, t in enumerate(plain)],
         "soll": True},
        {"shape": "segment", "segment_expression": "X", "elements": [(0, "A-okall"), (2, "D-ok951"), (0, None), (2, "")],
         "soll": True},
        {"shape": "segment", "segment_expression": "Soll [2]", "elements": [(6, "D-ok951"), (1, "B-no"), (9, "C-ok950")],
         "soll": False},
        {"shape": "deep", "segment_expression": "Muss [2]", "elements": [(1, "A-okall"), (2, "B-no"), (0, "C-ok950"),
                                                                         (1, "G"), (2, "D-ok951")], "soll": True},
        {"shape": "deep", "segment_expression": "Muss [4]", "elements": [(1, "B-no"), (0, "A-okall"), (1, "C-ok950"),
                                                                         (3, "E-ok952-ok950")], "soll": True},
    ]
    fixed.append({"shape": "segment", "segment_expression": "Muss [1]",
                  "elements": [(11, "A-okall"), (11, "B-no"), (1, "C-ok950")], "soll": True})
    n_random = 41 if tier == "thorough" else 9
    for n in range(n_random):
        count = rng.choice([2, 3, 4, 4])
        shape = "deep" if n % 3 == 2 else "segment"
        if shape == "deep":
            count = rng.choice([3, 4, 5])
        texts = rng.sample(INPUTS, count)
        fixed.append({"shape": shape,
                      "segment_expression": rng.choice(["Muss [1]", "X", "Muss [2] U [5]", "Kann [1]", "Soll [5]"]),
                      "elements": [(rng.randrange(len(TEMPLATES)), text) for text in texts],
                      "soll": rng.random() < 0.7})
    return fixed


def _job(job: Tuple[dict, int, int, int, int]) -> dict:
    scenario, yp, limit, n_steps, seed = job
    sched.install(echo=True)
    rng = random.Random(seed)
    make = _whole_coro(scenario)
    alone_cache: Dict[Tuple[str, str], Any] = {}
    out = {"evaluations": 0, "cases": set(), "violations": [], "exhaustive": True, "max_round": 0}
    reference = sched.run_reference(make, observe=True)
    runs_by_mode = [(None, [reference])]
    rounds, out["exhaustive"] = sched.explore(make, limit, rng, mode="rounds", yp=yp, observe=True)
    out["max_round"] = max([len(step["blocked"]) for step in rounds[0].log] or [0])
    runs_by_mode.append(("rounds", rounds))
    if n_steps:
        runs_by_mode.append(("steps", sched.explore(make, n_steps, rng, mode="steps", yp=yp, observe=True)[0]))
    distinct_inputs = len({text for _, text in scenario["elements"]})
    for mode, runs in runs_by_mode:
        for run in runs:
            out["evaluations"] += 1
            if mode is not None and distinct_inputs > 1 and any(o["kind"] == "fc" for o in run.obs):
                out["cases"].add((repr(scenario), tuple(run.completion)))
            problems = problems_of(scenario, run, alone_cache)
            if problems and len(out["violations"]) < MAX_VIOLATIONS:
                out["violations"].append({"scenario": scenario, "mode": mode, "yp": yp, "decisions": run.decisions,
                                          "schedule": run.log, "problems": problems[:3]})
    out["evaluations"] += len(alone_cache)
    out["sample"] = {"scenario": scenario, "completion": rounds[-1].completion[:12],
                     "elements": {k: v for k, v in (reference.value or {}).items() if k.startswith("E")}}
    return out


def _job_safe(job) -> dict:
    try:
        return _job(job)
    except sched.HarnessError as error:
        return {"harness_error": f"{job!r}: {error}"[:600], "evaluations": 0, "cases": set(), "violations": [],
                "exhaustive": False, "max_round": 0, "sample": {}}


def replay(witness: dict) -> dict:
    """re-runs the reported scenario under the reported schedule on the real code"""
    sched.install(echo=True)
    make = _whole_coro(witness["scenario"])
    if witness.get("mode") is None:
        run = sched.run_reference(make, observe=True)
    else:
        run = sched.run_scheduled(make, decisions=witness["decisions"], mode=witness["mode"], yp=witness["yp"],
                                  observe=True)
    problems = problems_of(witness["scenario"], run, {})
    return {"failing": bool(problems), "problems": problems, "completion": run.completion}


def run(ctx, tier: str, seed: int) -> None:
    thorough = tier == "thorough"
    rng = random.Random(seed)
    ctx.trust("A-ASYNCIO(checked only on CPython's default event loop, by replay)")
    ctx.note("C15 bounded: echoing format-constraint evaluator + gated evaluators (bounded/sched.py); oracle = element "
             "validated on its own without yields, and the echo of the element's own input")
    t0 = time.time()
    limit, n_steps = (600, 150) if thorough else (600, 30)
    jobs = []
    for n, scenario in enumerate(scenarios(tier, rng)):
        for yp in ([0, 1, 3] if thorough else [(n % 3) + 1]):
            jobs.append((scenario, yp, limit, n_steps, rng.randrange(2 ** 30)))
    results = pmap(_job_safe, jobs)
    harness_errors = [r["harness_error"] for r in results if "harness_error" in r]
    cases = set().union(*[r["cases"] for r in results])
    ctx.bounded("own-input", evaluations=sum(r["evaluations"] for r in results), distinct_nontrivial=len(cases),
                rule="a case = (segment / deep AHB with its elements' expressions and inputs, forced completion order of "
                     "all gated evaluator calls); non-trivial iff at least two different inputs are present and at least "
                     "one format constraint was evaluated",
                samples=[r["sample"] for r in results[:: max(1, len(results) // 5)] if r["sample"]],
                exhaustive=False,
                bound=f"{len(jobs)} scenario x yield-pattern jobs: segments with 2..4 and deep AHBs with 3..5 free-text "
                      f"elements, {len(TEMPLATES)} expression templates, {len(INPUTS)} inputs; rounds mode exhaustive when "
                      f"the product of the round factorials is <= {limit} (true for "
                      f"{sum(1 for r in results if r['exhaustive'])} jobs; widest round "
                      f"{max(r['max_round'] for r in results)} gates), seeded samples of {limit} otherwise; steps mode "
                      f"{n_steps} seeded interleavings",
                seconds=time.time() - t0)
    witnesses = sorted((w for r in results for w in r["violations"]),
                       key=lambda w: (len(w["scenario"]["elements"]), w["mode"] is not None, len(w["decisions"]),
                                      len(repr(w))))
    reported, unreproducible = 0, 0
    for witness in witnesses:
        if reported >= MAX_VIOLATIONS:
            break
        try:
            again = replay(witness)
        except sched.HarnessError:
            again = {"failing": False}
        if not again["failing"]:
            unreproducible += 1
            continue
        first = again["problems"][0]
        elements = [(TEMPLATES[t][0], text) for t, text in witness["scenario"]["elements"]]
        ctx.violation(
            obligation="bounded/own-input" + (f".{reported}" if reported else ""),
            message=(f"{first['what']}: {witness['scenario']['shape']} with elements {elements} under schedule "
                     f"{witness['mode']}/{witness['decisions']}: {first}")[:1500],
            witness={**witness, "element_expressions": elements}, replayed=True,
            signature=f"own-input:{first['what']}:{first.get('expression', '')}"[:160],
            replay_code="from bounded import c15\nprint(c15.replay(" + repr(_plain(witness)) + "))")
        reported += 1
    if unreproducible:
        ctx.note(f"C15: {unreproducible} failing run(s) did not fail again on replay (not a function of scenario and "
                 "schedule)")
        if not reported:
            raise RuntimeError("C15 harness: failing runs that do not reproduce on replay")
    if harness_errors:
        ctx.note(f"C15: {len(harness_errors)} job(s) stopped with a harness problem (not a verdict), first: "
                 f"{harness_errors[0]}")
        if not ctx.violations:
            raise RuntimeError(f"C15 harness: {harness_errors[0]}")
    sched.install()


def _plain(witness: dict) -> dict:
    return {"scenario": witness["scenario"], "mode": witness["mode"], "yp": witness["yp"],
            "decisions": witness["decisions"]}
