"""Encoder self-test: every lemma of contracts/engine_lemmas.py is (a) given to the engine and (b) run under CPython on all
its (small) argument ranges / sampled strings.  Sound encoder: proved => true under CPython; canaries (false under
CPython) must not be proved.  Exit 0 iff all lemmas behave; prints one line per lemma."""
import itertools
import sys

from checks.common import load_sidecars, _lemma_worker
from pyvc.contracts import LEMMAS, Bool, Enum, Int, SeqOf, Str

load_sidecars()
bad = 0
for key, lm in sorted(LEMMAS.items()):
    if not key.startswith("contracts.engine_lemmas:"):
        continue
    doms = []
    for n, spec in lm.params.items():
        if isinstance(spec, Int):
            doms.append(range(spec.lo if spec.lo is not None else -4, (spec.hi if spec.hi is not None else 4) + 1))
        elif isinstance(spec, Enum):
            import importlib
            mod = importlib.import_module("ahbicht.models.condition_nodes" if spec.cls == "ConditionFulfilledValue"
                                          else "ahbicht.models.enums")
            doms.append(list(getattr(mod, spec.cls)))
        elif isinstance(spec, Bool):
            doms.append([False, True])
        elif isinstance(spec, SeqOf) and n == "keys":
            doms.append([[], ["a"], ["a", "b", "a"]])
        elif isinstance(spec, SeqOf):
            doms.append([[], [5], [5, 6, 7]])
        elif isinstance(spec, Str):
            doms.append(["", "a", "ab "])
        else:
            raise SystemExit(f"engine lemma {key}: parameter kind not sampled")
    def run_native(vals):
        import asyncio
        import contextvars
        import inspect
        r = contextvars.copy_context().run(lambda: lm.fn(*vals))
        if inspect.iscoroutine(r):
            r = contextvars.copy_context().run(asyncio.run, r)
        return bool(r)
    native = [run_native(vals) for vals in itertools.product(*doms)]
    canary = lm.expect_sat
    lm.expect_sat = False          # raw verdict of the engine: discharged = proved, violated = refuted
    rec = _lemma_worker(key)
    lm.expect_sat = canary
    proved, refuted = rec["status"] == "discharged", rec["status"] == "violated"
    if canary:
        # sound encoder: a statement CPython refutes is never proved (refuted, or outside the modelled subset)
        ok = (not all(native)) and not proved
        what = (f"canary: CPython refutes it on {native.count(False)} of {len(native)} arguments; engine: "
                f"{'refuted' if refuted else 'PROVED' if proved else 'not decided (' + (rec['detail'] or '')[:120] + ')'}")
    else:
        ok = all(native) and proved
        what = f"CPython: true on all {len(native)} arguments; engine: {rec['status']} {(rec['detail'] or '')[:200]}"
    print(("ok   " if ok else "FAIL ") + key.split(":")[1] + " - " + what)
    bad += 0 if ok else 1
print("ENGINE-SELFTEST", "passed" if not bad else f"FAILED ({bad})")
sys.exit(1 if bad else 0)
