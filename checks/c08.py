"""C08 - format-constraint evaluation is Boolean and explains every failure: proof + bounded backstop."""
from checks.common import prove, run_bounded
from vlib.report import Ctx

LEVEL = "proof"
T = "ahbicht.expressions.format_constraint_expression_evaluation:"
TARGETS = [T + "FormatConstraintTransformer." + m for m in ("and_composition", "or_composition", "xor_composition")] + [
    T + "evaluate_format_constraint_tree", T + "format_constraint_evaluation",
    "ahbicht.content_evaluation.fc_evaluators:FcEvaluator.evaluate_single_format_constraint",
    # every key of the expression gets the verdict computed for THAT key (the leaves the fold starts from)
    "ahbicht.content_evaluation.fc_evaluators:FcEvaluator.evaluate_format_constraints",
    T + "_build_evaluated_format_constraint_nodes#body",
    "ahbicht.expressions.base_transformer:BaseTransformer.condition"]


def run(ctx: Ctx) -> None:
    ctx.explanation = (
        "each FormatConstraintTransformer callback (with FormatErrorMessageExpressionBuilder inlined) is proved to "
        "return the Boolean and/or/xor of its operands' values as a bool and to preserve the invariant J 'message is "
        "None iff fulfilled' (this is the induction step; principle A-LARK-FOLD); format_constraint_evaluation maps "
        "None/'' to (True, None) and otherwise passes value and message of the fold root through; "
        "evaluate_single_format_constraint guarantees a message for every unfulfilled single constraint. "
        "Precedence is C01's (bounded). The bounded API-level backstop is reported separately.")
    ctx.trust("A-LARK-FOLD", "A-LARK-PARSE", "A-LARK-TREE", "A-INJECT")
    prove(ctx, TARGETS)
    run_bounded(ctx, "C08")
