"""C16 - an invalid expression makes one node optional and never aborts validation: proof + bounded."""
from checks.c13 import FUNCS, VALUEPOOL
from checks.common import guarded, list_theory_obligations, prove, prove_lemmas, run_bounded
from vlib.report import Ctx

LEVEL = "proof"


def run(ctx: Ctx) -> None:
    ctx.explanation = (
        "exceptional-path obligations: no function of validation.py lets InvalidExpressionError escape "
        "(raises-only-declared; it is a BaseException and is not covered by the declared 'Exception'); at the three "
        "handler sites the node becomes IS_OPTIONAL with the reason as hint (group/segment), IS_OPTIONAL with a "
        "fulfilled format result (free text), selectable (value-pool entry); lemma: the own status of an invalid node "
        "equals that of a 'Kann' node for every admissible parent, hence every other node sees the same parent status.")
    ctx.trust("A-ASYNCIO", "A-LARK-FOLD (BaseException passes through lark unchanged)")
    prove(ctx, [FUNCS[2], FUNCS[3], FUNCS[4], FUNCS[5], FUNCS[8], VALUEPOOL])
    prove_lemmas(ctx, "contracts.validation_lemmas", ["invalid_node_is_like_kann"])
    run_bounded(ctx, "C16")
    # several modal-mark parts: every part is evaluated whatever earlier parts yield (a normal return means no part is
    # invalid), which rests on gather_if_necessary letting an item's InvalidExpressionError (a BaseException) through
    prove(ctx, ["ahbicht.expressions.ahb_expression_evaluation:AhbExpressionTransformer._ahb_expression_async",
                "ahbicht.utility_functions:gather_if_necessary#loop"])
    prove(ctx, ["ahbicht.utility_functions:gather_if_necessary#body"], kind="B (bounded by list length <= 4, symbolic contents)")
    list_theory_obligations(ctx)
    from bounded import multipart_invalid
    guarded(ctx, "C16", lambda: multipart_invalid.run(ctx, "C16"))
