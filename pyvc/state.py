"""Per-path state of the symbolic executor: frames (kept after return for closures), heap, path condition, ghost log."""
from __future__ import annotations

from typing import Any, Dict, List, Optional

import z3

from pyvc.values import DictObj, ListObj, Obj


class Frame:
    __slots__ = ("fid", "locals", "mod", "closure_fid", "qualname", "self_cls")

    def __init__(self, fid: int, mod, closure_fid: Optional[int], qualname: str, self_cls: Optional[str] = None):
        self.fid, self.mod, self.closure_fid, self.qualname, self.self_cls = fid, mod, closure_fid, qualname, self_cls
        self.locals: Dict[str, Any] = {}

    def copy(self) -> "Frame":
        f = Frame(self.fid, self.mod, self.closure_fid, self.qualname, self.self_cls)
        f.locals = dict(self.locals)
        return f


class State:
    def __init__(self) -> None:
        self.frames: Dict[int, Frame] = {}
        self.stack: List[int] = []
        self.heap: Dict[int, Any] = {}
        self.pc: List[z3.BoolRef] = []
        self.log: List[Any] = []  # ghost events: ('call', name, args), ('ctxset', value), side obligations ...
        self.ghost: Dict[str, Any] = {}  # ghost variables (e.g. the context-local text)
        self.depth = 0
        self.model = None      # a z3 model known to satisfy pc[:model_len] (speeds up branching)
        self.model_len = 0
        self.axiom_ids: set = set()  # ids of pc entries that only restrict the range of a fresh symbol

    def fork(self) -> "State":
        s = State()
        s.frames = {k: f.copy() for k, f in self.frames.items()}
        s.stack = list(self.stack)
        s.heap = {k: o.copy() for k, o in self.heap.items()}
        s.pc = list(self.pc)
        s.log = list(self.log)
        s.ghost = dict(self.ghost)
        s.depth = self.depth
        s.model, s.model_len = self.model, self.model_len
        s.axiom_ids = set(self.axiom_ids)
        return s

    @property
    def frame(self) -> Frame:
        return self.frames[self.stack[-1]]

    def assume(self, c: z3.BoolRef, axiom: bool = False) -> None:
        """`axiom`: the fact only restricts the range of a symbol that was just created (it is not a decision of the
        path), so it must not become part of a guard"""
        self.pc.append(c)
        if axiom:
            self.axiom_ids.add(c.get_id())

    def split(self, entries):
        """(decisions, axioms) among the given pc entries"""
        dec = [c for c in entries if c.get_id() not in self.axiom_ids]
        ax = [c for c in entries if c.get_id() in self.axiom_ids]
        return dec, ax
